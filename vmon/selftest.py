"""
Self-test of the reference model against closed-form identities.
Run by MANIFEST.setup_cmd and (fast subset) at the start of every check;
a failure makes every check inconclusive.
"""
import random
import sys
from fractions import Fraction as F
from math import comb

from . import ref


def _rand_kv(rng, p=None, nint=None):
    p = rng.randint(0, 4) if p is None else p
    nint = rng.randint(0, 4) if nint is None else nint
    a, b = rng.choice([(0, 1), (-1, 1), (1, 3), (-2, 0)])
    den = rng.choice([5, 6, 7, 12])
    cands = [F(a) + F(b - a) * F(k, den) for k in range(1, den)]
    ks = sorted(rng.sample(cands, min(nint, len(cands))))
    U = [F(a)] * (p + 1)
    for k in ks:
        U += [k] * rng.randint(1, p + 1)
    U += [F(b)] * (p + 1)
    return U


def _de_boor(U, p, C, u):
    """de Boor's triangular algorithm (independent of ref.basis)"""
    k = ref.span(U, u)
    d = [C[j + k - p] for j in range(p + 1)]
    for r in range(1, p + 1):
        for j in range(p, r - 1, -1):
            den = U[j + 1 + k - r] - U[j + k - p]
            al = (u - U[j + k - p]) / den
            d[j] = (1 - al) * d[j - 1] + al * d[j]
    return d[p]


def run(n=60, seed=12345):
    rng = random.Random(seed)
    checks = 0
    for it in range(n):
        U = _rand_kv(rng)
        wf = ref.wellformed(U)
        assert wf is not None
        p, npts = wf
        pts = []
        for a, b in zip(ref.distinct(U), ref.distinct(U)[1:]):
            pts += [a] + ref.sample_points(a, b, 2)
        pts.append(U[-1])
        C = [F(rng.randint(-9, 9), rng.randint(1, 5)) for _ in range(npts)]
        rc = ref.RC(U, [(c,) for c in C])
        for u in pts:
            N = ref.basis(U, p, u)
            assert len(N) == npts
            assert all(x >= 0 for x in N), "negative basis"
            assert sum(N) == 1, "partition of unity"
            k = ref.span(U, u)
            assert all(N[i] == 0 for i in range(npts) if not (k - p <= i <= k)), "local support"
            assert rc(u)[0] == _de_boor(U, p, C, u), "Cox-de Boor vs de Boor"
            checks += 4
            # sub degrees: local support
            for j in range(p + 1):
                Nj = ref.basis(U, j, u)
                for i, v in enumerate(Nj):
                    if v != 0:
                        assert U[i] <= u <= U[i + j + 1]
                checks += 1
        # Bernstein on Bezier vectors
        if npts == p + 1:
            a, b = U[0], U[-1]
            for u in pts:
                t = (u - a) / (b - a)
                N = ref.basis(U, p, u)
                for i in range(p + 1):
                    assert N[i] == comb(p, i) * t**i * (1 - t) ** (p - i)
                checks += 1
        # derivative: compare with exact differentiation of local polynomial
        if p >= 1:
            br = ref.distinct(U)
            for a, b in zip(br, br[1:]):
                co = ref.local_poly(lambda x: rc(x)[0], a, b, p)
                for x in ref.sample_points(a, b, 1):
                    t = (x - a) / (b - a)
                    d = sum(k * ck * t ** (k - 1) for k, ck in enumerate(co) if k) / (b - a)
                    assert rc.deriv(x)[0] == d, "derivative"
                    checks += 1
        # insertion / elevation preserve the function
        if len(U) > 2:
            a, b = U[0], U[-1]
            u = a + (b - a) * F(rng.randint(1, 10), 11)
            if ref.mult(U, u) <= p:
                ins = ref.boehm_insert(rc, u)
                assert ref.same_function(rc, ins), "boehm"
                back = ref.represent_curve(ins, U)
                assert back is not None and back.P == rc.P, "represent undoes boehm"
                checks += 2
        el = ref.elevate(rc, rng.randint(1, 2))
        assert ref.same_function(rc, el), "elevate"
        assert ref.minimal_form(el).U == ref.minimal_form(rc).U, "minimal form unique"
        assert ref.minimal_form(el).P == ref.minimal_form(rc).P
        checks += 3
        # rational
        W = [F(rng.randint(1, 9), rng.randint(1, 3)) for _ in range(npts)]
        rr = ref.RC(U, [(c, c + 1) for c in C], W)
        el = ref.elevate(rr, 1)
        assert ref.same_function(rr, el), "rational elevate"
        pert = ref.RC(U, [(c, c + 1) for c in C[:-1]] + [(C[-1] + F(1, 1000), C[-1] + 1)], W)
        assert not ref.same_function(rr, pert), "same_function must see perturbations"
        checks += 2
        # union: refinement of both and minimal
        V = _rand_kv(rng)
        V = [U[0] + (x - V[0]) * (U[-1] - U[0]) / (V[-1] - V[0]) for x in V]
        UV = ref.union(U, V)
        assert ref.wellformed(UV)
        for X in (U, V):
            q, m = ref.wellformed(X)
            for i in range(m):
                e = ref.RC(X, [(F(int(i == k)),) for k in range(m)])
                assert ref.represent_curve(e, UV) is not None, "union refines"
            checks += 1
        for k in ref.distinct(UV)[1:-1]:
            W2 = list(UV)
            W2.remove(k)
            ok = True
            for X in (U, V):
                q, m = ref.wellformed(X)
                # must be a valid vector of the same degree to be a candidate
                if ref.wellformed(W2) is None or ref.degree(W2) != ref.degree(UV):
                    ok = False
                    break
                for i in range(m):
                    e = ref.RC(X, [(F(int(i == kk)),) for kk in range(m)])
                    if ref.represent_curve(e, W2) is None:
                        ok = False
                        break
                if not ok:
                    break
            assert not ok, "union minimal"
            checks += 1
    # l2 of known polynomials: int_0^1 x^a x^b = 1/(a+b+1); on split interval too
    for a in range(4):
        for b in range(4):
            v = ref.l2_inner(lambda x: x**a, lambda x: x**b, [F(0), F(1, 3), F(1)], a, b)
            assert v == F(1, a + b + 1), "l2"
            checks += 1
    # linear algebra
    A = [[F(2), F(1)], [F(1), F(3)], [F(3), F(4)]]
    X, uniq = ref.solve_consistent(A, [[F(3)], [F(4)], [F(7)]])
    assert uniq and X == [[F(1)], [F(1)]]
    assert ref.solve_consistent(A, [[F(3)], [F(4)], [F(8)]])[0] is None
    assert ref.rank(A) == 2 and ref.nullspace([[F(1), F(1), F(0)]]) != []
    # malformed vectors
    for bad in ([0, 0, 1, 1, 2], [0, 0], [1, 1, 1], [0, 1, 0], [0, 0, 1], [0, 0, 0.5, 0.5, 0.5, 1, 1], ["a", 1], [0], [0, 0, 1, 2, 2, 2]):
        assert ref.wellformed(bad) is None, bad
    for good in ([0, 1], [0, 0, 1, 1], [0, 0, 0.5, 0.5, 1, 1], [0, 1, 2, 3], [-1, -1, 0, 1, 1]):
        assert ref.wellformed(good) is not None, good
    # geometry
    assert ref.seg_seg_intersection((0, 0), (2, 2), (0, 2), (2, 0)) == (F(1, 2), F(1, 2))
    d, t = ref.seg_point_dist((0.0, 0.0), (2.0, 0.0), (1.0, 1.0))
    assert abs(d - 1) < 1e-15 and abs(t - 0.5) < 1e-15
    checks += 6
    return checks


if __name__ == "__main__":
    n = run(n=150)
    print(f"selftest ok: {n} identities checked")
    sys.exit(0)
