"""
Worker process: runs one shard of the cases of one check with all monitors attached and writes a JSON report.
Also holds the per-case context object (`Ctx`) the checks talk to.
"""
import hashlib
import importlib
import json
import os
import random
import sys
import time
import traceback
from collections import Counter

MAX_VIOL_PER_KEY = 4
MAX_VIOL_TOTAL = 60


def case_digest(case):
    return hashlib.sha1(json.dumps(case, sort_keys=True, default=str).encode()).hexdigest()[:14]


class Ctx:
    """what a check reports for one case; merged by the worker"""

    def __init__(self, prop, tier):
        self.prop = prop
        self.tier = tier
        self.counters = Counter()
        self.classes = Counter()
        self.violations = []
        self.nontrivial = False
        self.watched = []

    def watch(self, obj, label):
        """a bystander (e.g. a curve built on the same KnotVector object as the curve under test): its state is compared
        with this snapshot when the case ends"""
        from . import lib

        self.watched.append((obj, lib.curve_digest(obj), label))

    def verify_watched(self):
        from . import lib

        for obj, pre, label in self.watched:
            self.counters["bystanders_verified"] += 1
            try:
                post = lib.curve_digest(obj)
            except Exception as e:
                post = f"digest raises {e!r}"
            if post != pre:
                self.violation(f"bystander-modified:{label}", f"a {label} that took part in no operation changed during the case", before=lib_short(pre, 300), after=lib_short(post, 300))
        self.watched = []

    # -- reporting api used by checks
    def count(self, name, n=1):
        self.counters[name] += n

    def compared(self, n=1):
        self.counters["oracle_comparisons"] += n

    def cls(self, label):
        self.classes[label] += 1

    def mark_nontrivial(self, flag=True):
        if flag:
            self.nontrivial = True

    def violation(self, key, msg, **detail):
        self.violations.append({"key": key, "msg": msg, "detail": {k: _js(v) for k, v in detail.items()}})

    def check(self, cond, key, msg, **detail):
        """one oracle comparison"""
        self.counters["oracle_comparisons"] += 1
        if not cond:
            self.violation(key, msg, **detail)
        return bool(cond)


def _js(v):
    try:
        json.dumps(v)
        return v
    except (TypeError, ValueError):
        s = repr(v)
        return s if len(s) < 600 else s[:600] + "..."


def lib_short(x, n=400):
    s_ = repr(x)
    return s_ if len(s_) <= n else s_[: n - 3] + "..."


def load_check(prop):
    return importlib.import_module(f"vmon.checks.{prop.lower()}")


def _retag(obj, new):
    """copy of a case with every exact number class replaced by `new`; None when nothing was exact"""
    hit = [False]

    def walk(x):
        if isinstance(x, dict):
            out = {}
            for k, v in x.items():
                if k == "numtype" and v == "frac":
                    out[k] = new
                    hit[0] = True
                else:
                    out[k] = walk(v)
            return out
        if isinstance(x, list):
            return [walk(v) for v in x]
        return x

    out = walk(obj)
    return out if hit[0] else None


def _dyadic_knots(obj):
    """every number of every knot list ("U", "V") of the case is exactly representable in binary64"""
    from fractions import Fraction

    ok = [True]

    def walk(x):
        if isinstance(x, dict):
            for k, v in x.items():
                if k in ("U", "V") and isinstance(v, list):
                    for n in v:
                        try:
                            q = Fraction(n)
                        except (TypeError, ValueError):
                            ok[0] = False
                            continue
                        if Fraction(float(q)) != q:
                            ok[0] = False
                else:
                    walk(v)
        elif isinstance(x, list):
            for v in x:
                walk(v)

    walk(obj)
    return ok[0]


def prime(mod, case, prop, tier):
    """Process history is an input: before one exact case in five whose knot values are exactly representable as
    floats, the same case is run once with float numbers (unjudged, monitors off). Caches keyed by value instead of by
    representation then serve float data to the exact run, which the oracles of the real run see."""
    if not getattr(mod, "PRIMABLE", True):
        return False
    if int(case_digest(case), 16) % 5 != 0:
        return False
    twin = _retag(case, "float")
    if twin is None or not _dyadic_knots(case):
        return False
    from . import attach

    attach.S.enabled = False
    try:
        mod.run_case(twin, Ctx(prop, tier))
    except BaseException:
        pass
    finally:
        attach.S.enabled = True
        attach.drain_violations()
    return True


def trace_hashes(trace):
    return [hashlib.sha1(repr(ev).encode()).hexdigest()[:12] for ev in trace]


def fresh_trace(prop, tier, case):
    """the same case in a fresh interpreter (nothing ran before it): list of per-call hashes, or None"""
    import subprocess

    try:
        p = subprocess.run([sys.executable, "-B", "-m", "vmon.tracecase", prop, tier], input=json.dumps(case), capture_output=True, text=True, timeout=600)
        if p.returncode != 0:
            return None
        return json.loads(p.stdout.strip().splitlines()[-1])
    except Exception:
        return None


def _has_exact(obj):
    if isinstance(obj, dict):
        return any((k == "numtype" and v == "frac") or _has_exact(v) for k, v in obj.items())
    if isinstance(obj, list):
        return any(_has_exact(v) for v in obj)
    return False


def maybe_mixed(case, rng):
    """checks that opt in (MIXED_INTS = True: the operation is documented / written to keep exact results when knots are
    Python ints): one exact case in eight is run with Python ints for its integral numbers (flag stored in the case, so
    replays, the fresh-interpreter trace and the minimiser see the same input)"""
    if isinstance(case, dict) and not case.get("enumerated") and _has_exact(case):
        if os.environ.get("VERIF_MIXED") == "1" or rng.random() < 0.125:
            case["mixed_ints"] = True
    return case


def setup_case(case):
    from . import lib

    lib.MIXED = bool(isinstance(case, dict) and case.get("mixed_ints"))


class CaseTimeout(BaseException):
    """wall-clock backstop for one case (exact arithmetic can blow up): the case is abandoned and counted, never a verdict"""


ALARM = {"fired": False}


def _alarm(signum, frame):
    # the exception may be swallowed on its way up (numpy's sequence coercion does that) and leave half-built data
    # behind, so the flag, not the exception, decides that the case is void
    ALARM["fired"] = True
    raise CaseTimeout()


def run_one(mod, case, prop, tier, S, allow_trace=True):
    """run one case under the monitors; returns (ctx, internal_error or None)"""
    from . import attach

    import signal

    limit = getattr(mod, "CASE_TIMEOUT", {"quick": 90, "thorough": 400})[tier]
    signal.signal(signal.SIGALRM, _alarm)
    setup_case(None)
    # the float twin runs without monitors (no step budget): it gets the same wall-clock backstop as the case itself
    signal.setitimer(signal.ITIMER_REAL, limit)
    try:
        try:
            primed = prime(mod, case, prop, tier)
        finally:
            signal.setitimer(signal.ITIMER_REAL, 0)
    except CaseTimeout:
        primed = False
        attach.S.depth = 0
        attach.S.enabled = True
        attach.drain_violations()
    setup_case(case)
    ctx = Ctx(prop, tier)
    if case.get("mixed_ints") if isinstance(case, dict) else False:
        ctx.count("mixed_int_fraction_cases")
    if primed:
        ctx.count("primed_by_float_twin")
    every = getattr(mod, "TRACE_EVERY", 23)
    if tier == "thorough" and every:
        every = max(5, every // 2)  # denser sampling in the thorough tier
    traced = allow_trace and every and int(case_digest(case), 16) % every == 1 and os.environ.get("VERIF_TRACE", "1") == "1"
    attach.reset_steps()
    attach.drain_violations()
    err = None
    attach.S.trace = [] if traced else None
    ALARM["fired"] = False
    hits0 = attach.S.budget_hits
    signal.setitimer(signal.ITIMER_REAL, limit)
    try:
        try:
            mod.run_case(case, ctx)
            ctx.verify_watched()
        finally:
            signal.setitimer(signal.ITIMER_REAL, 0)
        if ALARM["fired"]:
            raise CaseTimeout()
    except CaseTimeout:
        # void case: whatever was reported after the interruption may be an artefact of the interruption itself
        ctx.violations = []
        attach.drain_violations()
        # inconclusive for this case only: what was observed before stays, nothing is concluded from the abandonment
        ctx.count("case_timeouts")
        attach.S.depth = 0
        attach.S.enabled = True
        traced = False
    except Exception:
        if ALARM["fired"]:
            ctx.violations = []
            attach.drain_violations()
            ctx.count("case_timeouts")
            attach.S.depth = 0
            attach.S.enabled = True
            traced = False
        else:
            err = traceback.format_exc(limit=8)
    except BaseException as e:  # StepBudgetExceeded escaping a check = the check forgot lib.call: internal
        if type(e).__name__ != "StepBudgetExceeded":
            raise
        err = "StepBudgetExceeded escaped the check: " + traceback.format_exc(limit=6)
    trace, attach.S.trace = attach.S.trace, None
    if attach.S.budget_hits > hits0:
        # the monitor injected StepBudgetExceeded into library code: a multi-step mutator interrupted that way is left half
        # done by construction, so only the termination verdicts of this case stand
        ctx.count("step_budget_cases")
        ctx.violations = [v for v in ctx.violations if "StepBudget" in v["key"] or "no-termination" in v["key"]]
        attach.drain_violations()
        traced = False
    if traced and err is None and trace is not None:
        # history-independence monitor: every value the public API returned during this case (which ran after many other
        # cases in this process) must be bit-identical to what a fresh interpreter returns for the same case
        mine = trace_hashes(trace)
        other = fresh_trace(prop, tier, case)
        if other is None:
            ctx.count("history_monitor_unavailable")
        else:
            ctx.count("history_monitor_cases")
            ctx.counters["history_monitor_calls_compared"] += len(mine)
            if mine != other["hashes"]:
                k = next((i for i, (a, b) in enumerate(zip(mine, other["hashes"])) if a != b), min(len(mine), len(other["hashes"])))
                ev = trace[k] if k < len(trace) else ("<missing>", "", "", None)
                ctx.violation(f"history-dependent:{ev[0]}", f"call #{k} ({ev[0]} -> {ev[1]}) returned another value (or left another state) in this process than in a fresh interpreter: the result depends on what ran before",
                              here=lib_short(ev[2:]), fresh=other["events"][k] if k < len(other["events"]) else None, calls=(len(mine), len(other["hashes"])))
            else:
                ctx.compared()
    for v in attach.drain_violations():
        if v["kind"] == "monitor-error":
            err = (err or "") + f"\nmonitor error {v}"
            continue
        ctx.violation(f"m1:{v['kind']}:{v['op']}", f"state monitor: {v['kind']} in {v['op']}", **v["detail"], tail=v.get("tail"))
    return ctx, err


def main(argv):
    prop, tier, seed, shard, nshards, ncases, deadline, outpath = argv
    seed, shard, nshards, ncases = int(seed), int(shard), int(nshards), int(ncases)
    deadline = float(deadline)
    t0 = time.time()
    import faulthandler

    faulthandler.enable()
    from . import attach

    mod = load_check(prop)
    S = attach.attach(budget=getattr(mod, "STEP_BUDGET", None))
    rep = {
        "shard": shard, "evaluations": 0, "nontrivial_digests": [], "counters": Counter(), "classes": Counter(),
        "violations": [], "internal_errors": [], "samples": [], "skipped_deadline": 0,
    }
    perkey = Counter()
    digests = set()
    from . import gen

    large = getattr(mod, "LARGE", 0.0)
    gen.LARGE_P, gen.LARGE_MAX = large if isinstance(large, tuple) else (large, 64)
    for idx in range(shard, ncases, nshards):
        if time.time() - t0 > deadline:
            rep["skipped_deadline"] += 1
            continue
        rng = random.Random(f"{seed}:{prop}:{idx}")
        try:
            case = mod.gen_case(rng, idx, tier)
        except Exception:
            rep["internal_errors"].append({"idx": idx, "where": "gen_case", "tb": traceback.format_exc(limit=6)})
            continue
        if case is None:
            continue
        if getattr(mod, "MIXED_INTS", False) or os.environ.get("VERIF_MIXED") == "1":  # the env var is for exploration only
            case = maybe_mixed(case, rng)
        ctx, err = run_one(mod, case, prop, tier, S)
        rep["evaluations"] += 1
        rep["counters"].update(ctx.counters)
        rep["classes"].update(ctx.classes)
        if err:
            if len(rep["internal_errors"]) < 5:
                rep["internal_errors"].append({"idx": idx, "where": "run_case", "tb": err, "case": case})
            else:
                rep["internal_errors"].append({"idx": idx})
        if ctx.nontrivial:
            d = case_digest(case)
            if d not in digests:
                digests.add(d)
                if len(rep["samples"]) < 2:
                    rep["samples"].append(case)
        for v in ctx.violations:
            perkey[v["key"]] += 1
            if perkey[v["key"]] <= MAX_VIOL_PER_KEY and len(rep["violations"]) < MAX_VIOL_TOTAL:
                rep["violations"].append({**v, "case": case, "idx": idx})
    rep["violation_counts"] = dict(perkey)
    rep["nontrivial_digests"] = sorted(digests)
    rep["events"] = {f"{k[0]}|{k[1]}": n for k, n in S.events.items()}
    rep["reach"] = dict(S.reach)
    rep["max_steps"] = S.max_steps
    rep["step_budget"] = S.budget
    rep["fp_events"] = dict(S.fp_events)
    rep["missing"] = S.missing
    rep["loop_functions"] = S.loop_functions
    rep["wall_s"] = time.time() - t0
    rep["counters"] = dict(rep["counters"])
    rep["classes"] = dict(rep["classes"])
    with open(outpath, "w") as fh:
        json.dump(rep, fh, default=str)
    return 0


if __name__ == "__main__":
    sys.exit(main(sys.argv[1:]))
