"""
Reference model (trusted base of every oracle).

Everything is written from the textbook definitions in exact ``Fraction``
arithmetic and shares no code and no algorithm with compmec.nurbs:
Cox-de Boor recursion for the basis, collocation + exact Gaussian elimination
for "is this function representable on that knot vector", Lagrange
interpolation for polynomial pieces, monomial integration for L2 products.

Conventions: a knot vector is a list of Fractions ``U``; a scalar spline is
``(U, C)`` with ``C`` a list of Fractions; a (possibly vector valued, possibly
rational) curve is ``RC(U, P, W)`` where ``P`` is a list of tuples of Fractions
(dimension d >= 1) and ``W`` is ``None`` or a list of Fractions.
"""
from fractions import Fraction as F
from functools import lru_cache
import math

# --------------------------------------------------------------------------
# numbers


def fr(x):
    """exact rational image of a python / numpy number"""
    if isinstance(x, F):
        return x
    if isinstance(x, bool):
        raise TypeError("bool is not a number here")
    if isinstance(x, int):
        return F(x)
    if isinstance(x, float):
        if x != x or x in (math.inf, -math.inf):
            raise ValueError("non finite")
        return F(x)
    # numpy scalars
    try:
        import numpy as np

        if isinstance(x, np.integer):
            return F(int(x))
        if isinstance(x, np.floating):
            return fr(float(x))
    except ImportError:  # pragma: no cover
        pass
    if isinstance(x, (str, bytes, bytearray)) or x is None:
        raise TypeError(f"not a number: {type(x)}")
    # user defined real number types (the repository's tests use one): whatever float() makes of them
    try:
        v = float(x)
    except Exception:
        raise TypeError(f"not a number: {type(x)}")
    if v != v or v in (math.inf, -math.inf):
        raise ValueError("non finite")
    return F(v)


def is_real_number(x):
    try:
        fr(x)
        return True
    except (TypeError, ValueError):
        return False


# --------------------------------------------------------------------------
# knot vectors


def runs(U):
    out = []
    for x in U:
        if out and out[-1][0] == x:
            out[-1][1] += 1
        else:
            out.append([x, 1])
    return [(a, b) for a, b in out]


def wellformed(U):
    """(degree, npts) when U is a clamped knot vector of the statement, else None."""
    try:
        U = [fr(x) for x in U]
    except (TypeError, ValueError):
        return None
    if len(U) < 2:
        return None
    for a, b in zip(U, U[1:]):
        if not a <= b:
            return None
    r = runs(U)
    if len(r) < 2:
        return None
    p = r[0][1] - 1
    if r[-1][1] != p + 1:
        return None
    for _, m in r[1:-1]:
        if m > p + 1:
            return None
    n = len(U) - p - 1
    if not n > p:
        return None
    return p, n


def degree(U):
    return runs(U)[0][1] - 1


def distinct(U):
    return [a for a, _ in runs(U)]


def mult(U, u):
    return sum(1 for x in U if x == u)


def span(U, u):
    """k with U[k] <= u < U[k+1]; the last non-empty span at umax."""
    if not (U[0] <= u <= U[-1]):
        raise ValueError("outside")
    if u == U[-1]:
        return max(i for i in range(len(U) - 1) if U[i] < U[i + 1])
    for i in range(len(U) - 1):
        if U[i] <= u < U[i + 1]:
            return i
    raise AssertionError


def union(U, V):
    """coarsest common refinement (continuity-class rule)."""
    p, q = degree(U), degree(V)
    P = max(p, q)
    if (U[0], U[-1]) != (V[0], V[-1]):
        raise ValueError("intervals differ")
    ks = sorted(set(U) | set(V))
    out = []
    for k in ks:
        if k in (U[0], U[-1]):
            out += [k] * (P + 1)
            continue
        m = 0
        mu, mv = mult(U, k), mult(V, k)
        if mu:
            m = max(m, mu + P - p)
        if mv:
            m = max(m, mv + P - q)
        out += [k] * m
    return out


def intersection(U, V):
    """per-knot minimum multiplicity (equal degrees)."""
    if degree(U) != degree(V):
        raise ValueError("degrees differ")
    if (U[0], U[-1]) != (V[0], V[-1]):
        raise ValueError("intervals differ")
    out = []
    for k in sorted(set(U) & set(V)):
        out += [k] * min(mult(U, k), mult(V, k))
    return out


# --------------------------------------------------------------------------
# Cox - de Boor


def basis(U, j, u):
    """[N_{i,j}(u) for i in range(len(U)-j-1)], right-continuous, left limit at umax."""
    m = len(U) - 1
    k = span(U, u)
    N = [0] * m
    N[k] = 1
    for d in range(1, j + 1):
        # only N_{k-d..k, d} can be non-zero
        M = [0] * (m - d)
        for i in range(max(0, k - d), min(k, m - d - 1) + 1):
            a = 0
            if N[i]:
                den = U[i + d] - U[i]
                if den:
                    a += (u - U[i]) / den * N[i]
            if N[i + 1]:
                den = U[i + d + 1] - U[i + 1]
                if den:
                    a += (U[i + d + 1] - u) / den * N[i + 1]
            M[i] = a
        N = M
    return N


def basis_derivs(U, p, u, order):
    """[[d^k N_{i,p}/du^k (u) for i] for k in 0..order] (one sided: the piece that `basis` uses)."""
    # derivative recursion: N^{(k)}_{i,j} = j*( N^{(k-1)}_{i,j-1}/(U[i+j]-U[i]) - N^{(k-1)}_{i+1,j-1}/(U[i+j+1]-U[i+1]) )
    out = [basis(U, p, u)]
    for k in range(1, order + 1):
        if k > p:
            out.append([0] * (len(U) - p - 1))
            continue
        cur = basis(U, p - k, u)  # degree p-k, zeroth derivative
        # lift k times
        for s in range(k):
            j = p - k + s + 1  # target degree
            nxt = [0] * (len(U) - j - 1)
            for i in range(len(nxt)):
                a = 0
                den = U[i + j] - U[i]
                if den and cur[i]:
                    a += cur[i] / den
                den = U[i + j + 1] - U[i + 1]
                if den and cur[i + 1]:
                    a -= cur[i + 1] / den
                nxt[i] = j * a
            cur = nxt
        out.append(cur)
    return out


class RC:
    """reference curve: knots U, points P (list of tuples), weights W or None"""

    __slots__ = ("U", "P", "W", "p", "n", "dim")

    def __init__(self, U, P, W=None):
        self.U = [fr(x) for x in U]
        self.P = [tuple(fr(c) for c in pt) for pt in P]
        self.W = None if W is None else [fr(w) for w in W]
        wf = wellformed(self.U)
        if wf is None:
            raise ValueError("reference curve on malformed knot vector")
        self.p, self.n = wf
        if len(self.P) != self.n or (self.W is not None and len(self.W) != self.n):
            raise ValueError("reference curve: wrong number of points")
        self.dim = len(self.P[0])

    @property
    def limits(self):
        return self.U[0], self.U[-1]

    def homog(self):
        """(numerator points, denominator weights)"""
        if self.W is None:
            return self.P, [F(1)] * self.n
        return [tuple(w * c for c in pt) for w, pt in zip(self.W, self.P)], self.W

    def numden(self, u):
        N = basis(self.U, self.p, u)[: self.n]
        num, den = self.homog()
        d = sum(Ni * w for Ni, w in zip(N, den) if Ni)
        v = tuple(sum(Ni * pt[c] for Ni, pt in zip(N, num) if Ni) for c in range(self.dim))
        return v, d

    def __call__(self, u):
        v, d = self.numden(fr(u))
        if self.W is None:
            return v
        return tuple(c / d for c in v)

    def deriv(self, u):
        u = fr(u)
        B = basis_derivs(self.U, self.p, u, 1)
        num, den = self.homog()
        N0, N1 = B[0][: self.n], B[1][: self.n]
        A = tuple(sum(a * pt[c] for a, pt in zip(N0, num) if a) for c in range(self.dim))
        dA = tuple(sum(a * pt[c] for a, pt in zip(N1, num) if a) for c in range(self.dim))
        if self.W is None:
            return dA
        w = sum(a * b for a, b in zip(N0, den) if a)
        dw = sum(a * b for a, b in zip(N1, den) if a)
        return tuple((da * w - a * dw) / (w * w) for a, da in zip(A, dA))

    def breaks(self):
        return distinct(self.U)


def scalar_curves(rc):
    """coordinate curves of a polynomial RC as lists of coefficients"""
    return [[pt[c] for pt in rc.P] for c in range(rc.dim)]


# --------------------------------------------------------------------------
# exact linear algebra


def rref(M):
    """reduced row echelon form of a list-of-lists of Fractions -> (R, pivot columns)"""
    M = [list(r) for r in M]
    rows = len(M)
    cols = len(M[0]) if rows else 0
    piv = []
    r = 0
    for c in range(cols):
        pr = None
        for i in range(r, rows):
            if M[i][c] != 0:
                pr = i
                break
        if pr is None:
            continue
        M[r], M[pr] = M[pr], M[r]
        pv = M[r][c]
        if pv != 1:
            M[r] = [x / pv if x else x for x in M[r]]
        for i in range(rows):
            if i != r and M[i][c] != 0:
                f = M[i][c]
                M[i] = [a - f * b if b else a for a, b in zip(M[i], M[r])]
        piv.append(c)
        r += 1
        if r == rows:
            break
    return M, piv


def rank(A):
    if not A:
        return 0
    return len(rref([[fr(x) for x in row] for row in A])[1])


def solve_consistent(A, B):
    """Solve A X = B (A: m x n, B: m x k), Fractions.
    Returns (X, unique) ; X is None when inconsistent. When not unique, free variables are 0."""
    m = len(A)
    n = len(A[0])
    k = len(B[0])
    M = [list(A[i]) + list(B[i]) for i in range(m)]
    R, piv = rref(M)
    # inconsistent if a pivot lies in the augmented part
    for c in piv:
        if c >= n:
            return None, False
    X = [[F(0)] * k for _ in range(n)]
    for r, c in enumerate(piv):
        X[c] = R[r][n:]
    return X, len(piv) == n


def nullspace(A):
    """basis of {x : A x = 0}"""
    n = len(A[0])
    R, piv = rref(A)
    free = [c for c in range(n) if c not in piv]
    out = []
    for f in free:
        v = [F(0)] * n
        v[f] = F(1)
        for r, c in enumerate(piv):
            v[c] = -R[r][f]
        out.append(v)
    return out


# --------------------------------------------------------------------------
# polynomial pieces


@lru_cache(maxsize=None)
def _interior_ts(d):
    """d+1 distinct points strictly inside (0,1)"""
    return tuple(F(k + 1, d + 2) for k in range(d + 1))


@lru_cache(maxsize=None)
def _inv_vandermonde(d):
    ts = _interior_ts(d)
    V = [[t**k for k in range(d + 1)] for t in ts]
    I = [[F(int(i == j)) for j in range(d + 1)] for i in range(d + 1)]
    X, uniq = solve_consistent(V, I)
    assert uniq
    return X


def sample_points(a, b, d):
    """d+1 points strictly inside (a, b)"""
    return [a + (b - a) * t for t in _interior_ts(d)]


def local_poly(f, a, b, d):
    """coefficients c_k with f(a + (b-a) t) = sum c_k t^k on the open span (a,b); f scalar valued, degree <= d there"""
    ys = [f(x) for x in sample_points(a, b, d)]
    X = _inv_vandermonde(d)
    return [sum(X[k][i] * ys[i] for i in range(d + 1)) for k in range(d + 1)]


def poly_mul(a, b):
    out = [F(0)] * (len(a) + len(b) - 1)
    for i, x in enumerate(a):
        if x:
            for j, y in enumerate(b):
                out[i + j] += x * y
    return out


def poly_int01(c):
    return sum(ck / (k + 1) for k, ck in enumerate(c))


def poly_eval(c, t):
    s = F(0)
    for ck in reversed(c):
        s = s * t + ck
    return s


def poly_shift_scale(c, a, h):
    """coefficients in u of sum c_k ((u-a)/h)^k  -> returns coefficients about u=0 (global variable)"""
    # not needed by most oracles; kept for continuity analysis
    out = [F(0)]
    base = [F(1)]
    lin = [-a / h, F(1) / h]
    for ck in c:
        out = [x + ck * y for x, y in zip(out + [F(0)] * (len(base) - len(out)), base)]
        base = poly_mul(base, lin)
    return out


def l2_inner(f, g, breaks, df, dg):
    """exact integral of f*g over [breaks[0], breaks[-1]]; f, g scalar piecewise polynomials of degrees <= df, dg
    on every span of `breaks`."""
    tot = F(0)
    for a, b in zip(breaks, breaks[1:]):
        pf = local_poly(f, a, b, df)
        pg = local_poly(g, a, b, dg)
        tot += (b - a) * poly_int01(poly_mul(pf, pg))
    return tot


def merged_breaks(*knotlists):
    s = set()
    for k in knotlists:
        s |= set(k)
    return sorted(s)


# --------------------------------------------------------------------------
# function equality (complete decision)


def same_function(c1, c2):
    """True iff the two RC agree at every u of their common interval (right-continuous representative,
    left limit at umax).  Decided by d+1 points per span (cross-multiplied for rational curves)."""
    return first_difference(c1, c2) is None


def first_difference(c1, c2):
    if c1.limits != c2.limits or c1.dim != c2.dim:
        return ("limits/dim", c1.limits, c2.limits)
    br = merged_breaks(c1.breaks(), c2.breaks())
    rational = c1.W is not None or c2.W is not None
    d = (c1.p + c2.p) if rational else max(c1.p, c2.p)
    for a, b in zip(br, br[1:]):
        for x in sample_points(a, b, d):
            if rational:
                n1, d1 = c1.numden(x)
                n2, d2 = c2.numden(x)
                if d1 == 0 or d2 == 0:
                    return ("zero denominator", x)
                if any(a1 * d2 != a2 * d1 for a1, a2 in zip(n1, n2)):
                    return (x, c1(x), c2(x))
            else:
                v1, v2 = c1(x), c2(x)
                if v1 != v2:
                    return (x, v1, v2)
    return None


def restrict_equal(piece, whole):
    """piece (RC on [a,b]) equals whole on [a,b)"""
    a, b = piece.limits
    br = [k for k in merged_breaks(piece.breaks(), whole.breaks()) if a <= k <= b]
    rational = piece.W is not None or whole.W is not None
    d = (piece.p + whole.p) if rational else max(piece.p, whole.p)
    for lo, hi in zip(br, br[1:]):
        for x in sample_points(lo, hi, d):
            if piece(x) != whole(x):
                return (x, piece(x), whole(x))
    return None


# --------------------------------------------------------------------------
# representability by collocation


def represent(f, fdeg, fbreaks, V, dim):
    """Coefficients Q (list of tuples) with sum_i N_{i,q}^V Q_i == f on the whole interval, or None.
    f: u -> tuple(dim) piecewise polynomial of degree <= fdeg with break points fbreaks."""
    q = degree(V)
    n = len(V) - q - 1
    br = merged_breaks(fbreaks, distinct(V))
    d = max(fdeg, q)
    A, B = [], []
    for a, b in zip(br, br[1:]):
        for x in sample_points(a, b, d):
            A.append(basis(V, q, x)[:n])
            B.append(list(f(x)))
    X, uniq = solve_consistent(A, B)
    if X is None:
        return None
    assert uniq, "collocation matrix lost rank: reference model bug"
    return [tuple(row) for row in X]


def represent_curve(rc, V):
    """re-express RC on knot vector V (same interval); None when impossible.
    Rational curves are handled in homogeneous form (sufficient, not necessary)."""
    V = [fr(x) for x in V]
    if (V[0], V[-1]) != rc.limits:
        return None
    if rc.W is None:
        Q = represent(rc, rc.p, rc.breaks(), V, rc.dim)
        return None if Q is None else RC(V, Q, None)
    num, den = rc.homog()
    h = RC(rc.U, [pt + (w,) for pt, w in zip(num, den)], None)
    Q = represent(h, rc.p, rc.breaks(), V, rc.dim + 1)
    if Q is None:
        return None
    W = [q[-1] for q in Q]
    if any(w == 0 for w in W):
        return None
    return RC(V, [tuple(c / q[-1] for c in q[:-1]) for q in Q], W)


def boehm_insert(rc, u):
    """independent single knot insertion (Boehm), homogeneous for rational curves"""
    u = fr(u)
    U, p = rc.U, rc.p
    if not (U[0] < u < U[-1]):
        raise ValueError
    k = span(U, u)
    num, den = rc.homog()
    H = [pt + (w,) for pt, w in zip(num, den)]
    Q = []
    for i in range(rc.n + 1):
        if i <= k - p:
            Q.append(H[i])
        elif i > k:
            Q.append(H[i - 1])
        else:
            al = (u - U[i]) / (U[i + p] - U[i])
            Q.append(tuple(al * x + (1 - al) * y for x, y in zip(H[i], H[i - 1])))
    V = sorted(U + [u])
    if rc.W is None:
        return RC(V, [q[:-1] for q in Q], None)
    return RC(V, [tuple(c / q[-1] for c in q[:-1]) for q in Q], [q[-1] for q in Q])


def insert_many(rc, nodes):
    for u in nodes:
        rc = boehm_insert(rc, u)
    return rc


def elevate(rc, t):
    """independent degree elevation by t (collocation on the elevated knot vector)"""
    V = sorted(rc.U + distinct(rc.U) * t)
    out = represent_curve(rc, V)
    assert out is not None, "elevation must be representable: reference model bug"
    return out


def lowered_vector(U, t=1):
    """U with t copies of every distinct knot removed (the vector degree reduction targets); None if impossible"""
    V = list(U)
    for k in distinct(U):
        for _ in range(t):
            if k in V:
                V.remove(k)
            else:
                return None
    return V if wellformed(V) else None


def minimal_form(rc):
    """unique minimal representation of a polynomial RC: lowest degree, lowest multiplicities"""
    assert rc.W is None
    cur = rc
    while cur.p > 0:
        V = lowered_vector(cur.U)
        if V is None:
            break
        nxt = represent_curve(cur, V)
        if nxt is None:
            break
        cur = nxt
    changed = True
    while changed:
        changed = False
        for k in distinct(cur.U)[1:-1]:
            V = list(cur.U)
            V.remove(k)
            nxt = represent_curve(cur, V)
            if nxt is not None:
                cur = nxt
                changed = True
    return cur


def needed_mult(rc, k):
    """smallest multiplicity of interior knot k with which the polynomial RC is still representable at its degree"""
    assert rc.W is None
    cur = rc
    while mult(cur.U, k) > 0:
        V = list(cur.U)
        V.remove(k)
        nxt = represent_curve(cur, V)
        if nxt is None:
            break
        cur = nxt
    return mult(cur.U, k)


def exact_degree(rc):
    """max over spans of the true polynomial degree of a polynomial RC (max over coordinates)"""
    best = 0
    br = rc.breaks()
    for a, b in zip(br, br[1:]):
        for c in range(rc.dim):
            co = local_poly(lambda x: rc(x)[c], a, b, rc.p)
            dg = max((k for k, v in enumerate(co) if v != 0), default=0)
            best = max(best, dg)
    return best


# --------------------------------------------------------------------------
# L2 quantities


def sq_deviation(c1, c2):
    """per coordinate exact integral of (c1-c2)^2 over the interval (polynomial curves)"""
    assert c1.W is None and c2.W is None
    br = merged_breaks(c1.breaks(), c2.breaks())
    d = max(c1.p, c2.p)
    out = []
    for c in range(c1.dim):
        f = lambda x, c=c: c1(x)[c] - c2(x)[c]
        out.append(l2_inner(f, f, br, d, d))
    return out


_GL20 = None


def _gl20():
    global _GL20
    if _GL20 is None:
        import numpy as np

        x, w = np.polynomial.legendre.leggauss(20)
        _GL20 = [((1 + float(a)) / 2, float(b) / 2) for a, b in zip(x, w)]
    return _GL20


def sq_deviation_numeric(c1, c2):
    """per coordinate integral of (c1-c2)^2, 20 point Gauss rule per span on exactly computed samples"""
    br = merged_breaks(c1.breaks(), c2.breaks())
    out = [0.0] * c1.dim
    for a, b in zip(br, br[1:]):
        for t, w in _gl20():
            x = a + (b - a) * F(t)
            v1, v2 = c1(x), c2(x)
            for c in range(c1.dim):
                out[c] += float(b - a) * w * float(v1[c] - v2[c]) ** 2
    return out


# --------------------------------------------------------------------------
# planar / spatial geometry (floats)


def seg_point_dist(a, b, p):
    """(distance, parameter in [0,1]) from point p to segment ab"""
    ab = [y - x for x, y in zip(a, b)]
    ap = [y - x for x, y in zip(a, p)]
    den = sum(x * x for x in ab)
    t = 0.0 if den == 0 else max(0.0, min(1.0, sum(x * y for x, y in zip(ab, ap)) / den))
    q = [x + t * d for x, d in zip(a, ab)]
    return math.sqrt(sum((x - y) ** 2 for x, y in zip(q, p))), t


def seg_seg_intersection(a, b, c, d):
    """exact (Fraction) crossing of segments ab and cd in the plane:
    returns None (parallel / no unique crossing) or (s, t) with a+s(b-a) == c+t(d-c), s,t unrestricted"""
    a, b, c, d = [tuple(fr(x) for x in pt) for pt in (a, b, c, d)]
    r = (b[0] - a[0], b[1] - a[1])
    s = (d[0] - c[0], d[1] - c[1])
    den = r[0] * s[1] - r[1] * s[0]
    if den == 0:
        return None
    qp = (c[0] - a[0], c[1] - a[1])
    t = (qp[0] * s[1] - qp[1] * s[0]) / den
    u = (qp[0] * r[1] - qp[1] * r[0]) / den
    return t, u
