"""Greedy witness minimisation over the history-like lists of a case (operations, steps, calls, node sets ...).

    python -m vmon.minimise <replay.json>      (run with the worker environment; rewrites the file in place, keeping the
                                                original case under "unminimised_case")
Bounded to 200 re-executions; a trial is kept only when a violation with the *same key* is still reported.
"""
import copy
import json
import sys

HISTORY_KEYS = ("ops", "steps", "calls", "history", "nodesets", "mutated", "literals", "order", "params", "idxs", "slices")


def main(path):
    from . import attach, worker

    doc = json.load(open(path))
    mod = worker.load_check(doc["property"])
    S = attach.attach(budget=getattr(mod, "STEP_BUDGET", None))
    key = doc["key"]
    budget = [200]

    def fails(case):
        if budget[0] <= 0:
            return False
        budget[0] -= 1
        ctx, err = worker.run_one(mod, case, doc["property"], doc.get("tier", "quick"), S)
        return any(v["key"] == key for v in ctx.violations)

    case = doc["case"]
    if not fails(case):
        print("not reproducible in isolation (history dependent across cases?): left as is")
        return 0
    before = len(json.dumps(case))
    changed = True
    while changed and budget[0] > 0:
        changed = False
        for k in HISTORY_KEYS:
            if not isinstance(case.get(k), list):
                continue
            i = len(case[k]) - 1
            while i >= 0 and budget[0] > 0:
                if len(case[k]) <= (1 if k in ("nodesets", "order", "params") else 0):
                    break
                trial = copy.deepcopy(case)
                del trial[k][i]
                if fails(trial):
                    case = trial
                    changed = True
                i -= 1
    if len(json.dumps(case)) < before:
        doc["unminimised_case"] = doc["case"]
        doc["case"] = case
        doc["minimised"] = {"json_chars_before": before, "json_chars_after": len(json.dumps(case)), "re_executions": 200 - budget[0]}
        json.dump(doc, open(path, "w"), indent=1, default=str)
    print(f"minimised {before} -> {len(json.dumps(case))} chars in {200 - budget[0]} re-executions")
    return 0


if __name__ == "__main__":
    sys.exit(main(sys.argv[1]))
