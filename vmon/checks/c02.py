"""C02 - basis functions obey the Cox-de Boor definition for every index and sub-degree."""
from fractions import Fraction as F

import numpy as np

from .. import gen, lib, ref
from ..lib import call

PROP = "C02"
PLAN = {"quick": (1600, 150), "thorough": (24000, 1500)}
LARGE = (0.03, 64)  # (share, largest size) of the large class of gen.kv: 17+ control points, degree up to 8
RULE = ("case = (knot vector p<=5, optional positive weights, number type, probe parameters); enumerated multiplicity "
        "patterns first (p<=4, <=3 interior knots), then random vectors up to p=5; every j<=p, every i in -n..n-1 "
        "(subsampled to 10 when n>5), random slices, scalar and sequence u; non-trivial = p>=1 (so j<p exists) or a "
        "repeated interior knot or weights; distinct = distinct case JSON")
ANCHORS = ["BasisFunction.speval_matrix", "FunctionEvaluator.__compute_vector_spline", "FunctionEvaluator.__compute_vector",
           "IndexableFunction.__getitem__"]
ASSUMPTIONS = ["float / int-knot classes judged to relative 1e-9 on well-conditioned vectors only"]
ENUMERATED = {"quick": (300, "all 300 multiplicity patterns of degree <= 4 with <= 3 interior knots, every j <= p"),
              "thorough": (1200, "all 300 multiplicity patterns of degree <= 4 with <= 3 interior knots x 4 number classes, every j <= p")}

from .c01 import all_patterns


def gen_case(rng, idx, tier):
    pats = all_patterns()
    if idx < len(pats) * (4 if tier == "thorough" else 1):
        p, k, pat = pats[idx % len(pats)]
        a, b = rng.choice(gen.INTERVALS)
        U = gen.kv_from(a, b, p, gen.interior_values(rng, a, b, k), pat)
        nt = ["frac", "float", "frac", "npfloat"][(idx // len(pats)) % 4] if tier == "thorough" else rng.choice(["frac", "frac", "float"])
    elif rng.random() < 0.12:
        U = gen.integer_kv(rng)
        nt = "int"
    else:
        deep = tier == "thorough" and rng.random() < 0.3
        U = gen.kv(rng, pmax=7 if deep else 5, nintmax=6 if deep else 4)
        nt = gen.numtype(rng, U, ("frac", "frac", "float", "npfloat"))
    p, n = ref.wellformed(U)
    W = gen.weights(rng, n) if rng.random() < 0.4 else None
    params = gen.probe_params(U, per_span=3)
    if len(params) > 24:
        keep = set(ref.distinct(U))
        rest = [u for u in params if u not in keep]
        params = sorted(keep | set(rng.sample(rest, max(0, 24 - len(keep)))))
    if n > 5:
        idxs = sorted(set(rng.sample(range(-n, n), 10)) | {0, -1, n - 1, -n})
    else:
        idxs = list(range(-n, n))
    slices = []
    for _ in range(3):
        slices.append([rng.choice([None, rng.randint(-n, n)]), rng.choice([None, rng.randint(-n, n)]), rng.choice([None, 1, 2, -1, -2, 3])])
    jorder = list(range(p + 1))
    rng.shuffle(jorder)
    return {"U": lib.enc(U), "W": lib.enc(W), "numtype": nt, "params": lib.enc(params), "idxs": idxs, "slices": slices, "jorder": jorder}


def run_case(case, ctx):
    from compmec.nurbs import Function

    U, W = lib.dec(case["U"]), lib.dec(case["W"])
    nt = case["numtype"]
    p, n = ref.wellformed(U)
    exact = nt == "frac"
    judged = exact or gen.well_conditioned(U, W)
    kind = "rat" if W is not None else "poly"
    maxm = max([m for _, m in ref.runs(U)[1:-1]] or [0])
    ctx.cls(f"p{p}|int{len(ref.distinct(U)) - 2}|maxmult{maxm}|{kind}|{nt}")
    ctx.mark_nontrivial(p >= 1 or maxm > 1 or W is not None)
    Un = lib.nums(U, nt)
    Uarg = lib.container(Un, ["list", "oarray", "tuple"][len(Un) % 3])
    o = call(Function, Uarg)
    if not ctx.check(o.ok, f"construct:{o.exc_name}", f"Function(valid vector) raised {o.brief()}"):
        return
    f = o.value
    lib.scribble(Uarg)  # the caller's own sequences are not the function's state
    if W is not None:
        Warg = lib.container(lib.nums(W, nt), ["oarray", "list"][len(W) % 2])
        o = call(setattr, f, "weights", Warg)
        if not ctx.check(o.ok, f"weights:{o.exc_name}", f"positive weights rejected: {o.brief()}"):
            return
        lib.scribble(Warg)
    Uq = [ref.fr(x) for x in Un]
    Wq = None if W is None else [lib.exact_image(w, nt) for w in W]
    params = lib.dec(case["params"])
    pn = [lib.num(u, nt) for u in params]
    pq = [ref.fr(x) for x in pn]
    # the reference table T[j][k] = list of n values at parameter k
    T = []
    for j in range(p + 1):
        rows = []
        for uq in pq:
            N = ref.basis(Uq, j, uq)[:n]
            if Wq is not None:
                den = sum(a * b for a, b in zip(N, Wq))
                N = [a * w / den for a, w in zip(N, Wq)]
            rows.append(N)
            # self-check of the table (model facts)
            if Wq is None and j == p:
                assert sum(N) == 1
        T.append(rows)
    if not judged:
        ctx.count("unjudged_cases")

    def same(got, want):
        return lib.same_point(got, (want,), exact, 1e-9)

    def seq_ok(got, wants):
        return isinstance(got, (tuple, list, np.ndarray)) and len(got) == len(wants) and all(same(g, w) for g, w in zip(got, wants))

    # sub-degrees are requested in a random order, and the lowest ones once more at the end: a table must not depend
    # on which other tables of the same knot vector were built before
    jseq = list(case.get("jorder") or range(p + 1)) + [0, min(1, p)]
    seen_j = set()
    for j in jseq:
        requery = j in seen_j
        seen_j.add(j)
        # full table with sequence argument: f[:, j](us)
        o = call(lambda: f[:, j](tuple(pn)))
        if ctx.check(o.ok, f"basis:raises:{o.exc_name}:{kind}", f"f[:, {j}](nodes) raised {o.brief()}") and judged:
            M = o.value
            if ctx.check(isinstance(M, (tuple, list)) and len(M) == n and all(len(r) == len(pn) for r in M), "basis:shape", f"f[:, {j}](nodes) has wrong shape"):
                for k, uq in enumerate(pq):
                    col = [M[i][k] for i in range(n)]
                    ok = seq_ok(col, T[j][k])
                    if not ok and exact and all(lib.pts_close(g, (w,), 1e-12) for g, w in zip(col, T[j][k])):
                        ctx.check(False, f"basis:type:{kind}", f"float in exact basis values f[:, {j}]({params[k]})")
                    else:
                        from .c01 import where

                        ctx.check(ok, f"basis:value:{kind}:{'j<p' if j < p else 'j=p'}:{where(Uq, uq)}",
                                  f"f[:, {j}]({params[k]}) = {lib.short(col)} but Cox-de Boor gives {lib.short(T[j][k])}", j=j, u=str(params[k]))
                    # model free facts on the library's own output
                    if Wq is None or True:
                        vals = [float(x) for x in col]
                        ctx.check(all(v >= -1e-12 for v in vals), "basis:negative", f"negative basis value in f[:, {j}]({params[k]})")
                        for i, v in enumerate(vals):
                            if abs(v) > 1e-12:
                                ctx.check(Uq[i] <= uq <= Uq[i + j + 1], "basis:support", f"N_{i},{j}({params[k]}) = {v} outside its support")
                        if j == p:
                            ctx.check(abs(sum(vals) - 1) <= 1e-9 if not exact else sum(ref.fr(x) for x in col) == 1, "basis:sum", f"sum_i f[i,{p}]({params[k]}) != 1")
        if requery:
            continue
        # nodes of one call in arbitrary order, with repeats (first and last node in the same span, others elsewhere)
        import random as _random

        order = list(range(len(pn)))
        _random.Random(len(pn) * 31 + j).shuffle(order)
        order = order + order[:2]
        if len(pn) >= 3:
            order = [0] + order + [1 if len(pn) > 1 else 0]
        o = call(lambda: f[:, j](tuple(pn[k] for k in order)))
        if ctx.check(o.ok, f"basis:raises:{o.exc_name}:{kind}", f"f[:, {j}](unsorted nodes) raised {o.brief()}") and judged:
            M = o.value
            if ctx.check(isinstance(M, (tuple, list)) and len(M) == n and all(len(r) == len(order) for r in M), "basis:shape", f"f[:, {j}](unsorted nodes) has wrong shape"):
                good = all(seq_ok([M[i][c] for i in range(n)], T[j][k]) for c, k in enumerate(order))
                ctx.check(good, f"basis:unsorted-nodes:{kind}", f"f[:, {j}](nodes in arbitrary order) does not give the table values node by node")
        # single index, scalar and sequence u
        for i in case["idxs"]:
            o = call(lambda: f[i, j])
            if not ctx.check(o.ok, f"index:raises:{o.exc_name}", f"f[{i}, {j}] raised {o.brief()}"):
                continue
            ev = o.value
            o = call(ev, tuple(pn))
            if ctx.check(o.ok, f"basis:raises:{o.exc_name}:{kind}", f"f[{i}, {j}](nodes) raised {o.brief()}") and judged:
                ctx.check(seq_ok(o.value, [T[j][k][i] for k in range(len(pq))]), f"index:int-row:{'neg' if i < 0 else 'pos'}", f"f[{i}, {j}](nodes) is not row {i} of the table", i=i, j=j)
            k = (i * 7 + j) % len(pn)
            o = call(ev, pn[k])
            if ctx.check(o.ok, f"basis:raises:{o.exc_name}:{kind}", f"f[{i}, {j}]({params[k]}) raised {o.brief()}") and judged:
                ctx.check(same(o.value, T[j][k][i]), f"index:scalar:{'neg' if i < 0 else 'pos'}", f"f[{i}, {j}]({params[k]}) = {o.value} but table gives {T[j][k][i]}", i=i, j=j)
            if j == p:
                o = call(lambda: f[i](pn[k]))
                if ctx.check(o.ok, f"basis:raises:{o.exc_name}:{kind}", f"f[{i}]({params[k]}) raised {o.brief()}") and judged:
                    ctx.check(same(o.value, T[p][k][i]), "index:default-degree", f"f[{i}]({params[k]}) != f[{i}, {p}]")
        # slices
        for a, b, c in case["slices"]:
            sl = slice(a, b, c)
            k = (j * 5 + 1) % len(pn)
            o = call(lambda: f[sl, j](pn[k]))
            if ctx.check(o.ok, f"basis:raises:{o.exc_name}:{kind}", f"f[{sl}, {j}]({params[k]}) raised {o.brief()}") and judged:
                ctx.check(seq_ok(o.value, T[j][k][sl]), "index:slice", f"f[{a}:{b}:{c}, {j}]({params[k]}) is not the python slice of the table: {lib.short(o.value)} vs {lib.short(T[j][k][sl])}")
            o = call(lambda: f[sl, j](tuple(pn[:3])))
            if o.ok and judged:
                rows = list(range(n))[sl]
                good = isinstance(o.value, (tuple, list)) and len(o.value) == len(rows) and all(seq_ok(r, [T[j][kk][i] for kk in range(3)]) for r, i in zip(o.value, rows))
                ctx.check(good, "index:slice-seq", f"f[{a}:{b}:{c}, {j}](3 nodes) is not the slice of the table")
    # f(u) is f[:, p](u)
    for k in range(0, len(pn), max(1, len(pn) // 6)):
        o = call(f, pn[k])
        if ctx.check(o.ok, f"basis:raises:{o.exc_name}:{kind}", f"f({params[k]}) raised {o.brief()}") and judged:
            ctx.check(seq_ok(o.value, T[p][k]), "call:default", f"f({params[k]}) is not f[:, p]({params[k]})")
    o = call(f, tuple(pn[:4]))
    if ctx.check(o.ok, f"basis:raises:{o.exc_name}:{kind}", f"f(nodes) raised {o.brief()}") and judged:
        M = o.value
        ctx.check(isinstance(M, (tuple, list)) and len(M) == n and all(seq_ok([M[i][k] for i in range(n)], T[p][k]) for k in range(min(4, len(pn)))), "call:default-seq", "f(nodes) is not f[:, p](nodes)")
    # rejected indices and nodes
    for bad in [(n, p), (-n - 1, p), (0, p + 1), (0, -1), (0.5, p), (0, 1.0), ("a", 0), (0, 0, 0)]:
        o = call(lambda: f[bad])
        ctx.check(not o.ok, "index:bad-accepted", f"f[{bad}] was accepted")
    for u in gen.outside_params(U, nt in ("frac", "int"))[:8]:
        o = call(lambda: f[:, p](lib.num(u, "frac" if nt == "int" else nt)))
        ctx.check((not o.ok) and isinstance(o.exc, ValueError), "basis:outside", f"f[:, p]({u}) outside the interval: {o.brief() if not o.ok else lib.short(o.value)}")
