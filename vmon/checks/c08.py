"""C08 - curve arithmetic is pointwise."""
from fractions import Fraction as F

import numpy as np

from .. import cv, gen, lib, ref
from ..lib import call

PROP = "C08"
PLAN = {"quick": (1300, 400), "thorough": (40000, 3600)}
RULE = ("case = (A, B, operator, scalar / matrix); pairs on a common interval: equal / different degrees x no / shared / "
        "disjoint interior knots x equal / different multiplicities at shared knots x polynomial / rational x scalar / "
        "vector points; operators + - * @ / unary -, s+A, A+s, s-A, A-s, s*A, A*s, A/s, s/A, M@A, A@M; plus pairs on "
        "different intervals. The identity R(u) = A(u) op B(u) is decided at d_R+p_A+p_B+1 exact points of every span of "
        "the merged knots. non-trivial = an operand has an interior knot; distinct = case JSON")
ANCHORS = ["ImmutableKnotVector.__or__", "Operations.matrix_transformation", "MathOperations.add_spline_curve",
           "MathOperations.knotvector_mul", "MathOperations.mul_spline_curve", "BaseCurve.__add__", "BaseCurve.__mul__", "BaseCurve.__truediv__"]
MIN_COUNTERS = {"binary_ops": 100, "scalar_ops": 50, "points_compared": 1000}
ASSUMPTIONS = ["divisors have positive scalar control points (no zero)", "vector*vector elementwise products are not exercised",
               "float class judged on well-conditioned operands to 1e-9"]

BIN = ["add", "sub", "mul", "matmul", "div"]
SCAL = ["neg", "sadd", "adds", "ssub", "subs", "smul", "muls", "divs", "sdiv", "Mmat", "matM"]


def second_curve(rng, A, relation, q, dim, rational, positive=False):
    """curve on A's interval with a chosen knot relation"""
    U = A["U"]
    a, b = U[0], U[-1]
    ka = ref.distinct(U)[1:-1]
    if relation == "none":
        ks = []
    elif relation == "shared":
        ks = [k for k in ka if rng.random() < 0.7] or list(ka[:1])
    elif relation == "disjoint":
        ks = [k for k in gen.interior_values(rng, a, b, rng.randint(1, 2)) if k not in ka]
    else:
        ks = sorted(set([k for k in ka if rng.random() < 0.5] + [k for k in gen.interior_values(rng, a, b, 1)]))
    mults = [rng.randint(1, q + 1) for _ in ks]
    V = gen.kv_from(a, b, q, ks, mults)
    n = len(V) - q - 1
    if positive:
        P = [F(rng.randint(1, 9), rng.choice([1, 2, 3])) for _ in range(n)]
    else:
        P = gen.points(rng, n, dim)
    return {"U": V, "P": P, "W": gen.weights(rng, n, 9) if rational else None}


def gen_case(rng, idx, tier):
    nt = cv.pick_numtype(rng, None, 0.2)
    r = rng.random()
    if r < 0.62:
        op = rng.choice(BIN)
        dimA = rng.choice([0, 0, 2]) if op != "matmul" else rng.choice([2, 3])
        A = gen.curve(rng, pmax=3, nintmax=2, dim=dimA, rational=rng.random() < 0.3, wratio=9)
        q = rng.choice([ref.degree(A["U"])] * 2 + [0, 1, 2, 3])
        relation = rng.choice(["none", "shared", "disjoint", "mixed"])
        if op == "matmul":
            dimB = dimA
        elif op == "div":
            dimB = 0
        elif op == "mul":
            dimB = 0 if dimA else rng.choice([0, 0, 2])
        else:
            dimB = dimA
        B = second_curve(rng, A, relation, q, dimB, rng.random() < 0.3, positive=(op == "div"))
        # coincidences between the operands: same weights on another knot vector, the very same data
        co = rng.random()
        if co < 0.12 and A["W"] is not None:
            n = len(A["P"])
            a_, b_ = A["U"][0], A["U"][-1]
            q2 = rng.choice([x for x in range(0, 4) if n - x - 1 >= 0])
            tot = n - q2 - 1
            ks2, ms2 = [], []
            while tot > 0:
                m_ = rng.randint(1, min(tot, q2 + 1))
                ms2.append(m_)
                tot -= m_
            ks2 = gen.interior_values(rng, a_, b_, len(ms2), grid=60)
            V2 = gen.kv_from(a_, b_, q2, ks2, ms2)
            if len(V2) - q2 - 1 == n and V2 != A["U"]:
                P2 = [F(rng.randint(1, 9), rng.choice([1, 2, 3])) for _ in range(n)] if op == "div" else gen.points(rng, n, dimB)
                B = {"U": V2, "P": P2, "W": list(A["W"])}
                relation = "sameweights"
        elif co < 0.2 and op != "matmul" and (op != "div" or dimA == 0) and (op != "mul" or dimA == 0):
            B = {"U": list(A["U"]), "P": [F(abs(x) + 1) for x in A["P"]] if op == "div" and dimA == 0 else list(A["P"]), "W": None if A["W"] is None else list(A["W"])}
            relation = "samedata"
        elif co < 0.36:
            # same degree, size and distinct knots as A, multiplicities permuted among the interior knots (round 8): the
            # neighbourhood of "same basis", where a shortcut that adds control points directly would sit
            a_, b_ = A["U"][0], A["U"][-1]
            pA = ref.degree(A["U"])
            ks_ = [k for k in ref.distinct(A["U"]) if a_ < k < b_]
            ms_ = [ref.mult(A["U"], k) for k in ks_]
            if len(set(ms_)) > 1:
                ms2 = ms_[:]
                while ms2 == ms_:
                    rng.shuffle(ms2)
                n = len(A["P"])
                P2 = [F(rng.randint(1, 9), rng.choice([1, 2, 3])) for _ in range(n)] if op == "div" else gen.points(rng, n, dimB)
                B = {"U": gen.kv_from(a_, b_, pA, ks_, ms2), "P": P2, "W": None}
                relation = "multswapped"
        if rng.random() < 0.1:
            # control values of very different magnitude in the two operands (exact class only): nothing in the
            # statement depends on the size of the numbers
            sc = rng.choice([F(1, 10**10), F(1, 10**6), F(10**6)])
            B = dict(B, P=[[c * sc for c in pt] if isinstance(pt, list) else pt * sc for pt in B["P"]])
            if rng.random() < 0.5 and B["W"] is not None:
                B = dict(B, W=[w * F(1, 10**5) for w in B["W"]])
            nt = "frac"
            relation = relation + "+scaled"
        if op == "mul" and rng.random() < 0.5:
            A, B = B, A
        if rng.random() < 0.06:
            # different intervals
            B = dict(B, U=[k + F(1, 2) for k in B["U"]])
            relation = "shifted"
        return {"kind": "bin", "op": op, "A": cv.enc_curve(A, nt), "B": cv.enc_curve(B, nt), "numtype": nt, "relation": relation}
    op = rng.choice(SCAL)
    dim = rng.choice([2, 3]) if op in ("Mmat", "matM") else rng.choice([0, 0, 2])
    if op == "sdiv":
        dim = 0
    A = gen.curve(rng, pmax=4, nintmax=3, dim=dim, rational=rng.random() < 0.35, wratio=9)
    if op == "sdiv":
        A["P"] = [F(rng.randint(1, 9), rng.choice([1, 2, 3])) for _ in A["P"]]
    s = F(rng.randint(-9, 9) or 3, rng.choice([1, 1, 2, 3, 7]))
    M = [[F(rng.randint(-3, 3)) for _ in range(dim)] for _ in range(dim)] if dim else None
    return {"kind": "scal", "op": op, "A": cv.enc_curve(A, nt), "numtype": nt, "s": lib.enc(s), "M": lib.enc(M)}


def pt_op(op, x, y):
    """pointwise reference operation on tuples of Fractions"""
    if op in ("add", "sub"):
        sg = 1 if op == "add" else -1
        return tuple(a + sg * b for a, b in zip(x, y))
    if op == "mul":
        if len(x) == 1:
            return tuple(x[0] * b for b in y)
        if len(y) == 1:
            return tuple(a * y[0] for a in x)
        return tuple(a * b for a, b in zip(x, y))
    if op == "matmul":
        return (sum(a * b for a, b in zip(x, y)),)
    if op == "div":
        return tuple(a / y[0] for a in x)
    raise ValueError(op)


def compare(ctx, R, want_at, breaks, degsum, exact, key, what):
    """R: reference curve of the result; want_at(x) -> tuple; all spans of `breaks`"""
    br = ref.merged_breaks(breaks, R.breaks())
    npt = degsum + R.p + 1 if exact else min(4, degsum + R.p + 1)
    bad = None
    sc = None
    for x0, x1 in zip(br, br[1:]):
        for x in ref.sample_points(x0, x1, npt - 1):
            got, want = R(x), want_at(x)
            ctx.count("points_compared")
            if exact:
                ok = got == want
            else:
                sc = max([1.0] + [abs(float(v)) for v in want])
                ok = len(got) == len(want) and all(abs(float(g) - float(w)) <= 1e-9 * sc for g, w in zip(got, want))
            if not ok and bad is None:
                bad = (x, got, want)
    return ctx.check(bad is None, key, f"{what}: result({bad[0] if bad else ''}) = {lib.short(bad[1] if bad else '')} but pointwise value is {lib.short(bad[2] if bad else '')}")


def run_case(case, ctx):
    nt = case["numtype"]
    bA = cv.build(ctx, case["A"])
    if bA is None:
        return
    A, ra, exact = bA
    UA, PA, WA, _ = cv.dec_curve(case["A"])
    op = case["op"]
    preA = lib.curve_digest(A)
    if case["kind"] == "bin":
        bB = cv.build(ctx, case["B"])
        if bB is None:
            return
        B, rb, _ = bB
        UB, PB, WB, _ = cv.dec_curve(case["B"])
        preB = lib.curve_digest(B)
        rational = ra.W is not None or rb.W is not None
        sharedk = set(ra.U[1:-1]) & set(rb.U[1:-1])
        difm = any(ref.mult(ra.U, k) != ref.mult(rb.U, k) for k in sharedk)
        feat = f"{'rat' if rational else 'poly'}:{'eqdeg' if ra.p == rb.p else 'difdeg'}:{'int' if (len(ra.breaks()) > 2 or len(rb.breaks()) > 2) else 'bez'}"
        ctx.cls(f"{op}|pA{ra.p}|pB{rb.p}|{case['relation']}|{'difmult' if difm else 'eqmult'}|{'rat' if rational else 'poly'}|dim{ra.dim}x{rb.dim}|{nt}")
        ctx.mark_nontrivial(len(ra.breaks()) > 2 or len(rb.breaks()) > 2)
        judged = exact or (gen.well_conditioned(UA, WA) and gen.well_conditioned(UB, WB))
        fn = {"add": lambda: A + B, "sub": lambda: A - B, "mul": lambda: A * B, "matmul": lambda: A @ B, "div": lambda: A / B}[op]
        o = call(fn)
        ctx.check(lib.curve_digest(A) == preA and lib.curve_digest(B) == preB, f"arith:operand-modified:{op}", f"A {op} B modified an operand")
        if case["relation"] == "shifted":
            ctx.check((not o.ok) and isinstance(o.exc, ValueError), f"arith:different-intervals:{op}", f"operands on different intervals: {o.brief() if not o.ok else 'accepted'}")
            return
        ctx.count("binary_ops")
        dims = f"{'v' if ra.dim > 1 else 's'}{'v' if rb.dim > 1 else 's'}"
        if not ctx.check(o.ok, f"arith:raises:{op}:{o.exc_name}:{feat}:{dims}", f"A {op} B raised {o.brief()}"):
            return
        R = o.value
        if not ctx.check(hasattr(R, "_BaseCurve__knotvector"), f"arith:result-type:{op}", f"A {op} B returned {type(R).__name__}"):
            return
        rr = cv.state_rc(ctx, R, f"A {op} B")
        if rr is None or not judged:
            return
        if exact:
            fl = cv.exact_state(R)
            ctx.check(fl is None, f"arith:type:{op}", f"float introduced by exact arithmetic at {fl}")
        compare(ctx, rr, lambda x: pt_op(op, ra(x), rb(x)), ref.merged_breaks(ra.breaks(), rb.breaks()), ra.p + rb.p, exact,
                f"arith:value:{op}:{feat}:{dims}", f"A {op} B")
        cv.lib_eval_matches(ctx, R, rr, exact, f"arith:{op}", n=3)
        if op == "matmul" and exact and not rational and ra.dim > 1 and 2 * ra.p + rb.p <= 5 and len(ref.merged_breaks(ra.breaks(), rb.breaks())) <= 4:
            # composition: the scalar-valued curve A @ B (whatever container its control points ended up in) as an operand
            # of the next product, on either side
            ctx.count("compositions")
            for nm, f2, w2 in (("A*(A@B)", lambda: A * R, lambda x: tuple(c * rr(x)[0] for c in ra(x))), ("(A@B)*A", lambda: R * A, lambda x: tuple(rr(x)[0] * c for c in ra(x)))):
                o2 = call(f2)
                if not ctx.check(o2.ok, f"arith:composition:raises:{o2.exc_name}", f"{nm} raised {o2.brief()}"):
                    continue
                r2 = cv.state_rc(ctx, o2.value, nm)
                if r2 is not None:
                    compare(ctx, r2, w2, ref.merged_breaks(ra.breaks(), rb.breaks()), 2 * ra.p + rb.p, exact, "arith:composition:value", nm)
        return
    # scalar / matrix operators
    s = lib.num(F(case["s"]), nt)
    sq = ref.fr(s)
    M = lib.dec(case["M"])
    kind = "rat" if ra.W is not None else "poly"
    ctx.cls(f"{op}|p{ra.p}|{kind}|dim{ra.dim}|{nt}")
    ctx.mark_nontrivial(len(ra.breaks()) > 2)
    ctx.count("scalar_ops")
    judged = exact or gen.well_conditioned(UA, WA)
    if M is not None:
        Mn = np.array([[lib.num(c, nt) for c in row] for row in M], dtype=object if nt == "frac" else "float64")
    fn = {
        "neg": lambda: -A, "sadd": lambda: s + A, "adds": lambda: A + s, "ssub": lambda: s - A, "subs": lambda: A - s,
        "smul": lambda: s * A, "muls": lambda: A * s, "divs": lambda: A / s, "sdiv": lambda: s / A,
        "Mmat": lambda: Mn @ A, "matM": lambda: A @ Mn,
    }[op]
    want = {
        "neg": lambda v: tuple(-c for c in v), "sadd": lambda v: tuple(sq + c for c in v), "adds": lambda v: tuple(c + sq for c in v),
        "ssub": lambda v: tuple(sq - c for c in v), "subs": lambda v: tuple(c - sq for c in v), "smul": lambda v: tuple(sq * c for c in v),
        "muls": lambda v: tuple(c * sq for c in v), "divs": lambda v: tuple(c / sq for c in v), "sdiv": lambda v: (sq / v[0],),
        "Mmat": lambda v: tuple(sum(M[i][j] * v[j] for j in range(len(v))) for i in range(len(v))),
        "matM": lambda v: tuple(sum(v[i] * M[i][j] for i in range(len(v))) for j in range(len(v))),
    }[op]
    o = call(fn)
    ctx.check(lib.curve_digest(A) == preA, f"arith:operand-modified:{op}", f"{op} modified its operand")
    if not ctx.check(o.ok, f"arith:raises:{op}:{o.exc_name}:{kind}", f"{op} raised {o.brief()}"):
        return
    R = o.value
    if not ctx.check(hasattr(R, "_BaseCurve__knotvector"), f"arith:result-type:{op}", f"{op} returned {type(R).__name__}"):
        return
    rr = cv.state_rc(ctx, R, op)
    if rr is None or not judged:
        return
    if exact:
        fl = cv.exact_state(R)
        ctx.check(fl is None, f"arith:type:{op}", f"float introduced by exact arithmetic at {fl}")
    compare(ctx, rr, lambda x: want(ra(x)), ra.breaks(), ra.p, exact, f"arith:value:{op}:{kind}", op)
