"""C01 - curve evaluation equals the B-spline / NURBS definition at every parameter."""
from fractions import Fraction as F

import numpy as np

from .. import gen, lib, ref
from ..lib import call

PROP = "C01"
PLAN = {"quick": (2400, 150), "thorough": (24000, 1500)}
LARGE = (0.04, 64)  # (share, largest size) of the large class of gen.kv: 17+ control points, degree up to 8
RULE = ("case = (knot vector, control points, optional weights, number type, probe parameters); enumerated multiplicity "
        "patterns (p<=4, <=3 interior knots, 300 patterns) x knot-value sets x {polynomial, rational} x {Fraction, float} "
        "first, then random curves incl. degree 0, multiplicity p+1, intervals with negative knots and 0 interior; "
        "probes = every knot, both ends, p+2 points per span, points next to every knot, 6 points outside. "
        "non-trivial = the curve has an interior knot or weights; distinct = distinct case JSON")
ANCHORS = ["BasisFunction.speval_matrix", "BasisFunction.horner_method", "ImmutableKnotVector.__span_single",
           "eval_spline_nodes", "eval_rational_nodes", "Curve.eval", "Curve.__eval"]
ASSUMPTIONS = ["float / numpy / int-knot classes are judged to relative 1e-9 on well-conditioned inputs only",
               "weights positive with max/min <= 45"]
ENUMERATED = {"quick": (300, "all 300 multiplicity patterns of degree <= 4 with <= 3 interior knots (one knot-value set / class each)"),
              "thorough": (3600, "all 300 multiplicity patterns of degree <= 4 with <= 3 interior knots x 3 knot-value sets x {polynomial, rational} x {Fraction, float}")}

_PATTERNS = None


def all_patterns():
    global _PATTERNS
    if _PATTERNS is None:
        _PATTERNS = [(p, k, pat) for p in range(5) for k in range(4) for pat in gen.patterns(p, k)]
    return _PATTERNS


def gen_case(rng, idx, tier):
    pats = all_patterns()
    nenum = len(pats) * 12 if tier == "thorough" else len(pats)
    if idx < nenum:
        if tier == "thorough":
            p, k, pat = pats[idx % len(pats)]
            variant = idx // len(pats)  # 0..11
            valset, rational, flt = variant % 3, (variant // 3) % 2, variant // 6
        else:
            p, k, pat = pats[idx]
            valset, rational, flt = rng.randrange(3), rng.randrange(2), rng.randrange(2)
        a, b = gen.INTERVALS[[0, 1, 5][valset]]
        ks = gen.interior_values(rng, a, b, k, grid=[7, 12, 60][valset])
        U = gen.kv_from(a, b, p, ks, pat)
        n = len(U) - p - 1
        dim = rng.choice([0, 2])
        cur = {"U": U, "P": gen.points(rng, n, dim), "W": gen.weights(rng, n) if rational else None}
        nt = "float" if flt else "frac"
        src = "enumerated"
    else:
        deep = tier == "thorough" and rng.random() < 0.3  # beyond the quick bounds: degree up to 6, up to 7 interior knots
        cur = gen.curve(rng, big=(rng.random() < 0.05), pmax=6 if deep else 4, nintmax=7 if deep else 4, magnitudes=True)
        nt = gen.numtype(rng, cur["U"])
        if rng.random() < 0.15:
            U = gen.integer_kv(rng)
            p, n = ref.wellformed(U)
            cur = {"U": U, "P": gen.points(rng, n, rng.choice([0, 2])), "W": gen.weights(rng, n) if rng.random() < 0.4 else None}
            nt = "int"
        src = "random"
    U = cur["U"]
    params = gen.probe_params(U)
    if len(params) > 60:
        keep = set(ref.distinct(U))
        rest = [u for u in params if u not in keep]
        params = sorted(keep | set(rng.sample(rest, 60 - len(keep))))
    return {"U": lib.enc(U), "P": lib.enc(cur["P"]), "W": lib.enc(cur["W"]), "numtype": nt, "src": src,
            "params": lib.enc(params), "outside": lib.enc(gen.outside_params(U, nt in ("frac", "int")))}


def where(U, u):
    if u == U[-1]:
        return "umax"
    if u == U[0]:
        return "umin"
    m = ref.mult(U, u)
    if m:
        return "knot-full" if m == ref.degree(U) + 1 else "knot"
    return "interior"


def run_case(case, ctx):
    U, P, W = lib.dec(case["U"]), lib.dec(case["P"]), lib.dec(case["W"])
    nt = case["numtype"]
    p, n = ref.wellformed(U)
    rational = W is not None
    kind = "rat" if rational else "poly"
    exact = nt == "frac"
    judged = exact or gen.well_conditioned(U, W)
    ctx.cls(f"p{p}|int{len(ref.distinct(U)) - 2}|maxmult{max([m for _, m in ref.runs(U)[1:-1]] or [0])}|{kind}|{nt}|{'vec' if isinstance(P[0], list) else 'scal'}")
    ctx.mark_nontrivial(len(ref.distinct(U)) > 2 or rational)
    o = call(lib.mk_curve, U, P, W, nt)
    if not ctx.check(o.ok, f"construct:{o.exc_name}", f"valid curve rejected: {o.brief()}"):
        return
    curve = o.value
    rc = lib.case_rc(U, P, W, nt)
    Uq = rc.U
    params = lib.dec(case["params"])
    scalar_results = []
    for u in params:
        un = lib.num(u, nt)
        uq = ref.fr(un)
        if not (Uq[0] <= uq <= Uq[-1]):
            continue
        want = rc(uq)
        o = call(curve, un)
        if not o.ok:
            ctx.check(False, f"eval:raises:{o.exc_name}:{kind}:{where(Uq, uq)}", f"curve({u}) raised {o.brief()}", u=str(u))
            scalar_results.append(None)
            continue
        got = o.value
        scalar_results.append(got)
        if judged:
            ok = lib.same_point(got, want, exact)
            if not ok and exact and lib.pts_close(got, want, 1e-12):
                ctx.check(False, f"eval:type:{kind}", f"inexact number type in exact evaluation at u={u}: {lib.short(got)}", u=str(u))
            else:
                ctx.check(ok, f"eval:value:{kind}:{where(Uq, uq)}", f"curve({u}) = {lib.short(got)} but definition gives {lib.short(want)}", u=str(u))
            # model-free: convex hull (scalar coordinates) and end point interpolation
            g = got if isinstance(got, (list, tuple, np.ndarray)) else (got,)
            for c, x in enumerate(g):
                lo = min(pt[c] for pt in rc.P)
                hi = max(pt[c] for pt in rc.P)
                tol = 0 if exact else 1e-9 * max(1, abs(float(lo)), abs(float(hi)))
                ctx.check(float(lo) - tol <= float(x) <= float(hi) + tol if not exact else lo <= ref.fr(x) <= hi,
                          f"eval:hull:{kind}", f"curve({u}) leaves the convex hull of the control points", u=str(u))
        else:
            ctx.count("unjudged_float_evals")
    # one parameter wrapped as a 0-d float numpy array (np.array(u), what np.squeeze / a reduction hands back): a scalar
    # call; judged by value where the float is the parameter itself (float classes, dyadic parameters of exact ones)
    k0 = len(params) // 2
    if scalar_results and k0 < len(scalar_results) and scalar_results[k0] is not None and F(float(params[k0])) == F(params[k0]):
        o = call(curve, np.array(float(params[k0])))
        want0 = [float(c) for c in lib.pt_tuple(scalar_results[k0])]
        sc0 = max([1.0] + [abs(float(c)) for pt in rc.P for c in pt])
        good0 = o.ok and lib.pts_close(lib.pt_tuple(o.value) if o.ok else None, want0, 1e-12, sc0) if o.ok else False
        ctx.check(good0, f"eval:0d-array:{o.exc_name if not o.ok else 'value'}",
                  f"curve(np.array(u)) for u={params[k0]}: {o.brief() if not o.ok else lib.short(o.value)} but curve(u) = {lib.short(scalar_results[k0])}")
    # scalar vs sequence dispatch
    pscale = max([1.0] + [abs(float(c)) for pt in rc.P for c in pt])
    nums = [lib.num(u, nt) for u in params]
    for mk, label in ((tuple, "tuple"), (list, "list"), (lambda x: lib.container(x, "array"), "numpy array")):
        o = call(curve.eval, mk(nums))
        if not ctx.check(o.ok, f"eval:seq-raises:{o.exc_name}", f"curve.eval({label} of valid nodes) raised {o.brief()}"):
            continue
        res = o.value
        good = isinstance(res, (tuple, list)) and len(res) == len(nums)
        if ctx.check(good, "eval:seq-shape", f"sequence of {len(nums)} nodes gave {type(res).__name__} of len {len(res) if hasattr(res, '__len__') else '?'}"):
            for u, a, b in zip(params, res, scalar_results):
                if b is None:
                    continue
                ctx.check(lib.digest(a) == lib.digest(b) or (not exact and lib.pts_close(a, lib.pt_tuple(b), 1e-12, pscale)),
                          "eval:seq-order", f"sequence result at u={u} differs from the scalar call: {lib.short(a)} vs {lib.short(b)}")
    # nodes of one call may come in any order (and repeated)
    import random as _random

    order = list(range(len(nums)))
    _random.Random(len(nums) * 7919 + len(U)).shuffle(order)
    for label, idxs_ in (("reversed", list(range(len(nums)))[::-1]), ("shuffled", order + order[:3])):
        o = call(curve.eval, [nums[i] for i in idxs_])
        if not ctx.check(o.ok, f"eval:seq-raises:{o.exc_name}", f"curve.eval({label} valid nodes) raised {o.brief()}"):
            continue
        res = o.value
        if ctx.check(isinstance(res, (tuple, list)) and len(res) == len(idxs_), "eval:seq-shape", f"{label} sequence of {len(idxs_)} nodes gave a result of other length"):
            for i, a in zip(idxs_, res):
                b = scalar_results[i] if i < len(scalar_results) else None
                if b is None:
                    continue
                ctx.check(lib.digest(a) == lib.digest(b) or (not exact and lib.pts_close(a, lib.pt_tuple(b), 1e-12, pscale)),
                          f"eval:seq-order:{label}", f"{label} sequence: result at u={params[i]} differs from the scalar call: {lib.short(a)} vs {lib.short(b)}")
    # outside and non numbers
    state0 = lib.curve_digest(curve)
    for u in lib.dec(case["outside"]):
        un = lib.num(u, nt if nt != "int" else "frac")
        o = call(curve, un)
        if o.ok:
            ctx.check(False, "eval:outside-accepted", f"curve({u}) outside [{U[0]},{U[-1]}] returned {lib.short(o.value)}", u=str(u))
        else:
            ctx.check(isinstance(o.exc, ValueError), f"eval:outside-exc:{o.exc_name}", f"curve({u}) outside the interval raised {o.brief()} (ValueError expected)", u=str(u))
        o = call(curve.eval, [lib.num(params[0], nt), un])
        ctx.check((not o.ok) and isinstance(o.exc, ValueError), "eval:outside-in-seq", f"a sequence containing the outside node {u} gave {o.brief() if not o.ok else lib.short(o.value)}")
    for junk in ("a", None, float("inf"), -float("inf")):
        o = call(curve, junk)
        ctx.check(not o.ok, "eval:junk-accepted", f"curve({junk!r}) returned {lib.short(o.value) if o.ok else ''}")
    ctx.check(lib.curve_digest(curve) == state0, "eval:modified", "evaluation modified the curve")
    # the definition refers to the curve's *current* knot vector: map it in place through the public KnotVector
    # operations and evaluate again (state carried inside the curve must follow)
    how = (len(params) + len(U)) % 4
    if how < 3 and judged:
        import copy as _copy

        curve0, curve = curve, _copy.deepcopy(curve)  # the map is applied to a copy; the original serves the checks below
        kvobj = curve.knotvector
        a_, s_ = lib.num(F(3, 2), nt if nt != "int" else "frac"), lib.num(F(2), nt if nt != "int" else "frac")
        o = call(kvobj.shift, a_) if how == 0 else (call(kvobj.scale, s_) if how == 1 else call(kvobj.normalize))
        if ctx.check(o.ok, f"eval:remap-raises:{o.exc_name}", f"in-place map of curve.knotvector raised {o.brief()}"):
            try:
                rc2 = lib.to_rc(curve)
            except Exception as e:
                rc2 = None
                ctx.check(False, "eval:remap-state", f"curve state inconsistent after an in-place map of its knot vector: {e!r}")
            if rc2 is not None:
                ex2 = exact and all(lib.is_exact_number(k) for k in kvobj)
                ctx.count("evaluations_after_inplace_map")
                for x0, x1 in zip(rc2.breaks(), rc2.breaks()[1:]):
                    for x in ref.sample_points(x0, x1, 1) + [x0]:
                        un = x if ex2 else float(x)
                        o = call(curve, un)
                        if not ctx.check(o.ok, f"eval:remap-eval-raises:{o.exc_name}", f"curve({x}) raised {o.brief()} after an in-place map of its knot vector"):
                            break
                        ctx.check(lib.same_point(o.value, rc2(ref.fr(un)), ex2), "eval:after-inplace-map", f"after an in-place map of curve.knotvector, curve({x}) = {lib.short(o.value)} but the definition on the current knot vector gives {lib.short(rc2(ref.fr(un)))}")
        curve = curve0
    # matrices of the heavy layer
    from compmec.nurbs import heavy

    sub = nums[:: max(1, len(nums) // 12)]
    subq = [ref.fr(x) for x in sub]
    o = call(heavy.eval_spline_nodes, tuple(curve.knotvector), tuple(sub), p)
    if ctx.check(o.ok, f"matrix:raises:{o.exc_name}", f"eval_spline_nodes raised {o.brief()}") and judged:
        M = o.value
        ok_shape = len(M) == n and all(len(r) == len(sub) for r in M)
        if ctx.check(ok_shape, "matrix:shape", "eval_spline_nodes shape"):
            for j, uq in enumerate(subq):
                N = ref.basis(Uq, p, uq)[:n]
                for i in range(n):
                    ctx.check(lib.same_point(M[i][j], (N[i],), exact, 1e-9), "matrix:spline-value",
                              f"eval_spline_nodes[{i}][u={uq}] = {M[i][j]} but N_i = {N[i]}")
    if rational:
        wn = lib.nums(W, nt)
        o = call(heavy.eval_rational_nodes, tuple(curve.knotvector), tuple(wn), tuple(sub), p)
        if ctx.check(o.ok, f"matrix:raises:{o.exc_name}", f"eval_rational_nodes raised {o.brief()}") and judged:
            M = o.value
            for j, uq in enumerate(subq):
                N = ref.basis(Uq, p, uq)[:n]
                den = sum(a * b for a, b in zip(N, rc.W))
                for i in range(n):
                    ctx.check(lib.same_point(M[i][j], (N[i] * rc.W[i] / den,), exact, 1e-9), "matrix:rational-value",
                              f"eval_rational_nodes[{i}][u={uq}] = {M[i][j]}")
