"""C20 - Intersection returns exactly the parameter pairs where the curves meet."""
import math
from fractions import Fraction as F

import numpy as np

from .. import cv, gen, lib, ref
from ..lib import call

PROP = "C20"
PLAN = {"quick": (2400, 400), "thorough": (20000, 3600)}
RULE = ("case = pair of planar curves: segments and polylines (1-4 segments each) that cross transversally / do not meet "
        "with overlapping or disjoint bounding boxes (expected set in closed form; kept only when every crossing is >=1e-3 "
        "in parameter from a segment end, the angle is >=3 degrees, and non-crossing pairs are >=1e-3 apart); Bezier "
        "curves of degree 2-3 and a line against a rational quarter circle (analytic crossing). Oracle: soundness "
        "(|A(t)-B(u)|<=1e-6 inside both intervals), no duplicates, exact set for polylines, () when they do not meet. "
        "non-trivial = >=2 segments in one operand or degree>=2; distinct = case JSON")
ANCHORS = ["Intersection.curve_and_curve", "Intersection.bcurve_and_bcurve", "Intersection.filter_pairs", "Intersection.pairs_min_distance", "Intersection._inse_retangle"]
MIN_COUNTERS = {"pairs_of_curves": 400, "polyline_exact_sets": 200, "expected_empty": 80, "expected_crossings": 100}
ASSUMPTIONS = ["completeness is judged for polylines and for the analytic line x quarter-circle crossing only",
               "ambiguous configurations (touching, near-parallel, crossings near segment ends) are generated but not judged for completeness"]


def polyline(rng, nseg, box):
    U = gen.kv(rng, p=1, nint=nseg - 1, maxmult=1, itv=rng.choice([(F(0), F(1)), (F(-1), F(2)), (F(0), F(nseg))]))
    n = len(U) - 2
    (x0, x1), (y0, y1) = box
    P = [[F(rng.randint(x0 * 4, x1 * 4), 4), F(rng.randint(y0 * 4, y1 * 4), 4)] for _ in range(n)]
    for i in range(1, n):
        if P[i] == P[i - 1]:
            P[i][0] += 1
    return {"U": U, "P": P, "W": None}


def gen_case(rng, idx, tier):
    r = rng.random()
    if r < 0.12:
        # constructed near miss: A's last vertex stops d short of an interior point of a segment of B,
        # 2e-5 <= d <= 5e-4: no meeting point, and every returned pair would be at distance >= d >> 1e-6
        nb = rng.randint(1, 3)
        B = polyline(rng, nb, ((-10, 10), (-10, 10)))
        j = rng.randrange(len(B["P"]) - 1)
        b0, b1 = B["P"][j], B["P"][j + 1]
        t = F(rng.randint(2, 8), 10)
        q = [b0[0] + (b1[0] - b0[0]) * t, b0[1] + (b1[1] - b0[1]) * t]
        nx, ny = -(b1[1] - b0[1]), (b1[0] - b0[0])
        L = F(int(100 * float(nx * nx + ny * ny) ** 0.5) + 1, 100)  # a rational bound of |n| from above
        d = F(rng.randint(2, 50), 100000)
        sgn = rng.choice([1, -1])
        end = [q[0] + sgn * nx / L * d * F(101, 100), q[1] + sgn * ny / L * d * F(101, 100)]
        start = [end[0] + sgn * nx * rng.randint(1, 3), end[1] + sgn * ny * rng.randint(1, 3)]
        A = {"U": [F(0), F(0), F(1), F(1)], "P": [start, end], "W": None}
        return {"kind": "polylines", "A": cv.enc_curve(A, "float"), "B": cv.enc_curve(B, "float"), "layout": "near-miss"}
    if r < 0.18:
        # almost flat arc: a quadratic Bezier whose middle control point is 2e-5..3e-4 off its chord, crossed by a segment
        x0, x1 = F(rng.randint(-8, -2)), F(rng.randint(2, 8))
        y0, y1 = F(rng.randint(-3, 3)), F(rng.randint(-3, 3))
        h = F(rng.randint(2, 30), 100000) * rng.choice([1, -1])
        A = {"U": [F(0)] * 3 + [F(1)] * 3, "P": [[x0, y0], [(x0 + x1) / 2, (y0 + y1) / 2 + h], [x1, y1]], "W": None}
        cx = x0 + (x1 - x0) * F(rng.randint(2, 8), 10)
        B = {"U": [F(0), F(0), F(1), F(1)], "P": [[cx - F(1, 3), F(-6)], [cx + F(1, 2), F(7)]], "W": None}
        if rng.random() < 0.5:
            A, B = B, A
        return {"kind": "bezier", "A": cv.enc_curve(A, "float"), "B": cv.enc_curve(B, "float"), "layout": "flat-arc"}
    if r < 0.24:
        # a discontinuous polyline (interior knot of multiplicity 2 with a jump) crossed exactly at the end point of its
        # left part: the pair (knot, .) is not a meeting point of the curves, A(knot) is the right value
        L = [F(rng.randint(-5, 5)), F(rng.randint(-5, 5))]
        A = {"U": [F(0), F(0), F(1), F(1), F(2), F(2)], "P": [[L[0] - 4, L[1] - 1], L, [L[0] + 1, L[1] + 5], [L[0] + 6, L[1] + 6]], "W": None}
        d = [F(rng.randint(1, 3)), F(rng.randint(-3, -1))]
        B = {"U": [F(0), F(0), F(1), F(1)], "P": [[L[0] - d[0], L[1] - d[1]], [L[0] + d[0], L[1] + d[1]]], "W": None}
        if rng.random() < 0.5:
            # ... or exactly at the first point of its right part, which is A(knot): that pair is a meeting point
            R0 = A["P"][2]
            B = {"U": [F(0), F(0), F(1), F(1)], "P": [[R0[0] - d[0], R0[1] - d[1]], [R0[0] + d[0], R0[1] + d[1]]], "W": None}
            return {"kind": "bezier", "A": cv.enc_curve(A, "float"), "B": cv.enc_curve(B, "float"), "layout": "jump-start", "expect": [1.0, 0.5]}
        return {"kind": "bezier", "A": cv.enc_curve(A, "float"), "B": cv.enc_curve(B, "float"), "layout": "jump-end"}
    if r < 0.31:
        # the crossing sits at parameter 0 of both curves: transversal and interior (intervals straddling 0), or the common
        # start point of two curves on [0, 1] (a meeting point at an end: soundness and no-duplicates only)
        X = [F(rng.randint(-6, 6)), F(rng.randint(-6, 6))]
        dA = [F(rng.randint(1, 4)), F(rng.randint(-3, 3))]
        dB = [F(rng.randint(-3, 3)), F(rng.randint(1, 4))]
        if dA[0] * dB[1] - dA[1] * dB[0] == 0:
            dB = [-dA[1], dA[0]]
        if rng.random() < 0.6:
            lo, hi = rng.choice([(1, 2), (1, 1), (2, 1)])
            mk = lambda d, lo, hi: {"U": [F(-lo), F(-lo), F(hi), F(hi)], "P": [[X[0] - lo * d[0], X[1] - lo * d[1]], [X[0] + hi * d[0], X[1] + hi * d[1]]], "W": None}
            A, B = mk(dA, lo, hi), mk(dB, *rng.choice([(1, 2), (1, 1), (2, 1)]))
            layout = "zero-params"
        else:
            mk = lambda d: {"U": [F(0), F(0), F(1), F(1)], "P": [list(X), [X[0] + d[0], X[1] + d[1]]], "W": None}
            A, B = mk(dA), mk(dB)
            layout = "common-start"
        return {"kind": "polylines", "A": cv.enc_curve(A, "float"), "B": cv.enc_curve(B, "float"), "layout": layout}
    if r < 0.37:
        # T-junction (round 8): one end of B lies exactly on an interior point of the segment A, B arriving along A's
        # normal; the two curves live on different parameter intervals. All coordinates are binary fractions, so the
        # meeting point is exact in floats: the pair (t*, B's end parameter) must be returned
        a, b = rng.choice([(F(0), F(1)), (F(-1), F(2)), (F(2), F(5)), (F(0), F(4))])
        c, d = rng.choice([(F(0), F(2)), (F(-3), F(-1)), (F(0), F(1)), (F(1), F(3))])
        P0 = [F(rng.randint(-6, 6)), F(rng.randint(-6, 6))]
        dA = [F(rng.choice([-4, 4, 8])), F(rng.choice([-8, -4, 0, 4]))]
        ts = rng.choice([F(1, 2), F(1, 4), F(3, 4)])
        X = [P0[0] + ts * dA[0], P0[1] + ts * dA[1]]
        k = rng.choice([-2, -1, 1, 2]) * F(1, 4)
        Y = [X[0] - dA[1] * k, X[1] + dA[0] * k]
        at_end = rng.random() < 0.7
        A = {"U": [a, a, b, b], "P": [P0, [P0[0] + dA[0], P0[1] + dA[1]]], "W": None}
        B = {"U": [c, c, d, d], "P": [Y, X] if at_end else [X, Y], "W": None}
        return {"kind": "polylines", "A": cv.enc_curve(A, "float"), "B": cv.enc_curve(B, "float"), "layout": "t-junction",
                "expect": [float(a + (b - a) * ts), float(d if at_end else c)]}
    if r < 0.75:
        na, nb = rng.randint(1, 4), rng.randint(1, 4)
        A = polyline(rng, na, ((-10, 10), (-10, 10)))
        layout = rng.choice(["overlap", "overlap", "overlap", "disjoint-box", "near"])
        if layout == "disjoint-box":
            B = polyline(rng, nb, ((12, 30), (-10, 10)))
        else:
            B = polyline(rng, nb, ((-10, 10), (-10, 10)))
        return {"kind": "polylines", "A": cv.enc_curve(A, "float"), "B": cv.enc_curve(B, "float"), "layout": layout}
    if r < 0.9:
        A = gen.curve(rng, p=rng.choice([2, 3]), nint=rng.choice([0, 0, 1]), maxmult=1, dim=2, rational=False)
        B = gen.curve(rng, p=rng.choice([1, 2, 3]), nint=0, dim=2, rational=False)
        red = rng.random()
        if red < 0.25:
            # reducible representations: a straight segment stored at a higher degree, constant weights
            seg = gen.curve(rng, p=1, nint=0, dim=2, rational=False)
            el = ref.elevate(lib.case_rc(seg["U"], seg["P"], None), rng.choice([1, 2]))
            which = {"U": el.U, "P": [list(pt) for pt in el.P], "W": [F(2)] * len(el.P) if rng.random() < 0.4 else None}
            if rng.random() < 0.5:
                A = which
            else:
                B = which
        elif red < 0.35:
            B = dict(B, W=[F(1)] * len(B["P"]))
        return {"kind": "bezier", "A": cv.enc_curve(A, "float"), "B": cv.enc_curve(B, "float")}
    # line through the origin against the unit quarter circle (rational quadratic)
    ang = F(rng.randint(5, 85))
    return {"kind": "circle", "angle": lib.enc(ang), "radius": lib.enc(F(rng.randint(2, 4)))}


def seg_param(U, i, s):
    ks = ref.distinct(U)
    return ks[i] + (ks[i + 1] - ks[i]) * s


def expected_polyline_crossings(ra, rb):
    """(list of exact (t,u) crossings, ambiguous flag, min distance when no crossing)"""
    out = []
    amb = False
    segsA = list(zip(ra.P, ra.P[1:]))
    segsB = list(zip(rb.P, rb.P[1:]))
    mind = None
    for i, (a0, a1) in enumerate(segsA):
        for j, (b0, b1) in enumerate(segsB):
            st = ref.seg_seg_intersection(a0, a1, b0, b1)
            fa0, fa1, fb0, fb1 = ([float(c) for c in p] for p in (a0, a1, b0, b1))
            d = min(ref.seg_point_dist(fa0, fa1, fb0)[0], ref.seg_point_dist(fa0, fa1, fb1)[0], ref.seg_point_dist(fb0, fb1, fa0)[0], ref.seg_point_dist(fb0, fb1, fa1)[0])
            if st is None:
                # parallel: ambiguous when (nearly) collinear and overlapping
                if d < 1e-3:
                    amb = True
                mind = d if mind is None else min(mind, d)
                continue
            s, t = st
            inside = 0 <= s <= 1 and 0 <= t <= 1
            eps = F(1, 1000)
            if inside:
                # angle
                va = [y - x for x, y in zip(fa0, fa1)]
                vb = [y - x for x, y in zip(fb0, fb1)]
                cr = abs(va[0] * vb[1] - va[1] * vb[0]) / (math.hypot(*va) * math.hypot(*vb))
                if cr < math.sin(math.radians(3)):
                    amb = True
                if not (eps <= s <= 1 - eps and eps <= t <= 1 - eps):
                    amb = True
                out.append((seg_param(ra.U, i, s), seg_param(rb.U, j, t)))
            else:
                # a near miss is ambiguous too
                if d < 1e-3:
                    amb = True
                mind = d if mind is None else min(mind, d)
    return out, amb, mind


def run_case(case, ctx):
    from compmec.nurbs import Curve, Intersection

    kind = case["kind"]
    if kind == "circle":
        ang = math.radians(float(F(case["angle"])))
        R = float(F(case["radius"]))
        w = math.sqrt(2) / 2
        A = Curve([0.0, 0.0, 0.0, 1.0, 1.0, 1.0], np.array([[1.0, 0.0], [1.0, 1.0], [0.0, 1.0]]), [1.0, w, 1.0])
        B = Curve([0.0, 0.0, 1.0, 1.0], np.array([[0.0, 0.0], [R * math.cos(ang), R * math.sin(ang)]]))
        ra, rb = lib.to_rc(A), lib.to_rc(B)
        expected = "one"
        amb = False
    else:
        UA, PA, WA, _ = cv.dec_curve(case["A"])
        UB, PB, WB, _ = cv.dec_curve(case["B"])
        A, B = lib.mk_curve(UA, PA, WA, "float"), lib.mk_curve(UB, PB, WB, "float")
        ra, rb = lib.to_rc(A), lib.to_rc(B)
        expected = None
        amb = True
        if kind == "polylines":
            expected, amb, mind = expected_polyline_crossings(ra, rb)
    ctx.cls(f"{kind}|{case.get('layout', '')}|segA{len(ra.breaks()) - 1}|segB{len(rb.breaks()) - 1}|{'amb' if amb else 'clear'}")
    ctx.mark_nontrivial(len(ra.breaks()) > 2 or len(rb.breaks()) > 2 or ra.p >= 2)
    ctx.count("pairs_of_curves")
    preA, preB = lib.curve_digest(A), lib.curve_digest(B)
    o = call(Intersection.curve_and_curve, A, B)
    ctx.check(lib.curve_digest(A) == preA and lib.curve_digest(B) == preB, "inter:modified", "curve_and_curve modified a curve")
    nexp = "?" if expected in (None, "one") else ("empty" if not expected else "crossing")
    if not o.ok:
        if isinstance(o.exc, lib.StepBudgetExceeded):
            ctx.check(False, f"inter:no-termination:{kind}", "curve_and_curve did not return within the step budget")
        else:
            ctx.check(False, f"inter:raises:{o.exc_name}:{kind}:{nexp}", f"curve_and_curve raised {o.brief()}")
        return
    res = o.value
    try:
        pairs = [(float(t), float(u)) for t, u in res]
    except Exception:
        ctx.check(False, f"inter:shape:{kind}", f"curve_and_curve returned {lib.short(res)}")
        return
    ctx.check(isinstance(res, tuple), f"inter:shape:{kind}", f"curve_and_curve returned a {type(res).__name__}")
    ta0, ta1 = float(ra.U[0]), float(ra.U[-1])
    tb0, tb1 = float(rb.U[0]), float(rb.U[-1])
    sc = max(cv.scale_of(ra), cv.scale_of(rb))
    # soundness
    for t, u in pairs:
        inside = ta0 - 1e-12 <= t <= ta1 + 1e-12 and tb0 - 1e-12 <= u <= tb1 + 1e-12 and not (math.isnan(t) or math.isnan(u))
        if not ctx.check(inside, f"inter:outside:{kind}", f"pair ({t},{u}) outside the parameter intervals"):
            continue
        pa = [float(c) for c in ra(F(min(max(t, ta0), ta1)))]
        pb = [float(c) for c in rb(F(min(max(u, tb0), tb1)))]
        ctx.check(math.dist(pa, pb) <= 1e-6 * max(1.0, sc / 10), f"inter:false-pair:{kind}:{nexp}", f"returned pair ({t},{u}) but |A(t)-B(u)| = {math.dist(pa, pb)!r}")
    # duplicates
    dup = any(math.dist(p, q) <= 1e-6 for i, p in enumerate(pairs) for q in pairs[i + 1:])
    ctx.check(not dup, f"inter:duplicates:{kind}", f"duplicate pairs returned: {pairs}")
    # completeness
    if kind == "polylines" and case.get("layout") == "near-miss":
        ctx.count("near_miss")
        if mind is not None and mind > 1.5e-5 and not expected:
            ctx.count("expected_empty")
            ctx.check(len(pairs) == 0, "inter:nonempty-for-disjoint:near-miss", f"curves pass at distance {mind!r} without meeting but {pairs} was returned")
    elif case.get("layout") == "t-junction":
        # soundness, range and no-duplicates are judged above; completeness is NOT demanded here: the statement promises
        # every *transversal crossing*, a T-junction is a touching at an end, and the unchanged library returns it in
        # about 70 % of these cases only (observed, recorded in the counters) - DESIGN section 8, eighth round
        ctx.count("t_junctions")
        e = case["expect"]
        ctx.count("t_junction_returned" if any(math.dist(p, e) <= 1e-6 for p in pairs) else "t_junction_not_returned")
    elif kind == "polylines" and not amb:
        ctx.count("polyline_exact_sets")
        exp = [(float(t), float(u)) for t, u in expected]
        if not exp:
            ctx.count("expected_empty")
            ctx.check(len(pairs) == 0, f"inter:nonempty-for-disjoint:{case['layout']}", f"curves do not meet (distance {mind!r}) but {pairs} was returned")
        else:
            ctx.count("expected_crossings")
            missing = [e for e in exp if not any(math.dist(e, p) <= 1e-7 * (1 + abs(e[0]) + abs(e[1])) for p in pairs)]
            extra = [p for p in pairs if not any(math.dist(e, p) <= 1e-7 * (1 + abs(e[0]) + abs(e[1])) for e in exp)]
            ctx.check(not missing, "inter:missed-crossing:polylines", f"transversal crossings {missing} not returned (returned {pairs})")
            ctx.check(not extra, "inter:extra-pair:polylines", f"pairs {extra} are not crossings (expected {exp})")
    elif case.get("layout") == "jump-start":
        # B runs through the first point of the right part of a discontinuous polyline, transversally, at its own u = 1/2
        ctx.count("expected_crossings")
        e = case["expect"]
        ctx.check(any(math.dist(p, e) <= 1e-6 for p in pairs), "inter:missed-crossing:jump-start", f"the crossing at A(knot) = first point of the right part, pair {e}, is not returned (returned {pairs})")
    elif kind == "circle":
        ang = math.radians(float(F(case["angle"])))
        R = float(F(case["radius"]))
        ctx.count("expected_crossings")
        # crossing at angle ang on the unit circle: parameter u = 1/R on the line
        hit = [p for p in pairs if abs(p[1] - 1.0 / R) <= 1e-6]
        ctx.check(len(hit) == 1 and len(pairs) == 1, "inter:circle-line", f"line x quarter circle: expected one crossing at u={1.0 / R!r}, got {pairs}")
