"""C03 - every reachable KnotVector is well formed; queries agree; bad requests are rejected atomically.

History + executable model.  Operations are *symbolic* in the case (e.g. "insert 2 copies of the 3rd distinct knot
and a new value at 2/5 of span 1") and resolved at run time against the current state, so a history stays meaningful
whatever the library answered before; the classification accept / reject / either is always computed by the model
from the resolved request, never assumed by the generator.
"""
import copy as _copy
import math
from fractions import Fraction as F

from .. import gen, lib, ref
from ..lib import call

PROP = "C03"
PLAN = {"quick": (1280 + 2000, 200), "thorough": (20480 + 15000, 2400)}
LARGE = (0.01, 64)  # (share, largest size) of the large class of gen.kv: 17+ control points, degree up to 8
RULE = ("case = constructor literals (valid and invalid) + an initial vector + a history of 5-30 (quick) / up to 60 "
        "(thorough) symbolic public KnotVector operations, ~30% aimed at being invalid, over a pool of vectors that "
        "grows by copy / non in-place operators / split; after every step all pool members are compared with their "
        "list model and queried (degree, npts, knots, limits, span, mult, valid) on knots, span mid points, ends, "
        "outside points, +-inf and a string. non-trivial = >=1 rejected and >=3 accepted mutations; distinct = case JSON")
ANCHORS = ["ImmutableKnotVector.__is_valid", "ImmutableKnotVector.__new__", "ImmutableKnotVector.__add__",
           "ImmutableKnotVector.__sub__", "ImmutableKnotVector.__span_single", "ImmutableKnotVector.mult",
           "ImmutableKnotVector.valid", "KnotVector.internal"]
MIN_COUNTERS = {"steps_accept": 50, "steps_reject": 20, "queries": 500}
ASSUMPTIONS = ["distinct knots stay >= 1e-3 apart and |knot| <= 1e3 along every history (requests that would leave "
               "that bound are skipped and counted)", "NaN nodes are not judged",
               "non-numeric arguments of insert/remove may raise any exception (TypeError is what sorted() gives)"]

SEP = F(1, 1000)
BIG = F(1000)
JUNK = {"str": "a", "none": None, "list": [1]}

BAD_LITERALS = [
    [0, 0, 1, 1, 2], [0, 0], [1, 1, 1], [0, 1, 0], [0, 0, 1], [1, 0], [0, 0, 0.5, 0.5, 0.5, 1, 1], [0], [],
    [0, 0, 1, 2, 2, 2], [0, 0, 0, 1, 1], [0, 0, 1, 1, 1, 2, 2], [0, 1, 1, 1, 2], [0, 0, 2, 1, 3, 3],
    ["a", "b"], [None, 1], [[0, 0], [1, 1]], [0, 0, 1, 1, 3, 3, 3], [0, 0, 0, 1, 2, 2], [-1, -1, 0, 0, 0, 1, 1],
    [0, 0, 0, 0, 1, 1, 1], [0, 0, 1, 1, 1], [2, 2, 2], [0, 1, 1, 2],
]
assert not any(ref.wellformed(v) for v in BAD_LITERALS)
GOOD_LITERALS = [
    [0, 1], [0, 0, 1, 1], [0, 0, 0.5, 0.5, 1, 1], [0, 1, 2, 3], [-1, -1, 0, 1, 1], [0, 0, 0, 1, 1, 1],
    [0, 0, 0, 0.25, 0.5, 0.5, 0.5, 1, 1, 1], [1, 1, 2, 3, 3], [-2, -1.5, -1], [0, 0, 1, 2, 2, 3, 3], [0, 1, 2],
]
assert all(ref.wellformed(v) for v in GOOD_LITERALS)


# ------------------------------------------------------------------ generation (symbolic)
def atom(rng, aim):
    if aim == "knot":
        return ["k", rng.randrange(64)]
    if aim == "interior":
        return ["ki", rng.randrange(64)]
    if aim == "new":
        return ["n", rng.randrange(64), lib.enc(F(rng.randint(2, 8), 10))]
    if aim == "out":
        return ["out", rng.choice(["l", "r"]), lib.enc(F(rng.choice([1, 2, 7, 1000]), rng.choice([1, 1000])))]
    if aim == "junk":
        return ["junk", rng.choice(list(JUNK))]
    raise ValueError(aim)


def gen_op(rng):
    r = rng.random()
    tgt = rng.randrange(64)
    bad = rng.random() < 0.3
    if r < 0.22:
        via = rng.choice(["method", "method", "iadd", "add"])
        k = rng.choice([1, 1, 1, 2, 3])
        if bad:
            kinds = rng.choice([["out"], ["junk"], ["knot"] * 4, ["new", "out"], ["knot", "knot", "knot"]])
        else:
            kinds = [rng.choice(["new", "new", "interior"]) for _ in range(k)]
        return {"op": "insert", "t": tgt, "via": via, "nodes": [atom(rng, a) for a in kinds]}
    if r < 0.42:
        via = rng.choice(["method", "method", "isub", "sub"])
        if bad:
            kinds = rng.choice([["new"], ["junk"], ["knot"], ["interior"] * 5, ["out"]])
        else:
            kinds = ["interior"] * rng.choice([1, 1, 2])
        return {"op": "remove", "t": tgt, "via": via, "nodes": [atom(rng, a) for a in kinds]}
    if r < 0.50:
        v = ["junk", rng.choice(list(JUNK))] if bad and rng.random() < 0.5 else ["v", lib.enc(F(rng.randint(-30, 30), rng.choice([1, 2, 3, 7])))]
        return {"op": "shift", "t": tgt, "via": rng.choice(["method", "iadd", "isub", "add", "sub"]), "v": v}
    if r < 0.60:
        if bad:
            v = rng.choice([["v", 0], ["v", -1], ["v", "-1/2"], ["junk", "str"], ["junk", "none"]])
        else:
            v = ["v", lib.enc(F(rng.randint(1, 12), rng.randint(1, 12)))]
        return {"op": "scale", "t": tgt, "via": rng.choice(["method", "imul", "itruediv", "mul", "rmul", "truediv"]), "v": v}
    if r < 0.65:
        return {"op": "normalize", "t": tgt}
    if r < 0.71:
        return {"op": "convert", "t": tgt, "cls": rng.choice(["int", "float", "Fraction", "Fraction"])}
    if r < 0.79:
        if bad and rng.random() < 0.4:
            return {"op": "degree", "t": tgt, "v": ["junk", rng.choice(["str", "none"])]}
        return {"op": "degree", "t": tgt, "v": ["d", rng.choice([-3, -2, -1, -1, 0, 1, 1, 2, 3])]}
    if r < 0.88:
        return {"op": rng.choice(["or", "and", "ior", "iand"]), "t": tgt, "other": rng.randrange(64),
                "build": {"dq": rng.choice([0, 0, 0, 1, -1, 2]), "keep": [rng.random() < 0.6 for _ in range(8)],
                          "mults": [rng.randint(1, 6) for _ in range(8)], "new": [atom(rng, "new") for _ in range(rng.choice([0, 1, 2]))],
                          "shiftit": bad and rng.random() < 0.5, "usepool": rng.random() < 0.3}}
    if r < 0.94:
        kinds = rng.choice([["new"], ["interior"], ["knot", "new"], ["new", "new", "interior"], [], ["out"], ["junk"]]) if True else []
        return {"op": "split", "t": tgt, "nodes": [atom(rng, a) for a in kinds]}
    return {"op": rng.choice(["copy", "deepcopy", "KnotVector"]), "t": tgt}


# ---- bounded-exhaustive part: every sequence of 2 (quick) / 3 (thorough) operations of a fixed alphabet on fixed vectors
_B = {"dq": 1, "keep": [True] * 8, "mults": [1] * 8, "new": [["n", 0, "1/3"]], "shiftit": False, "usepool": False}
ALPHABET = [
    {"op": "insert", "via": "method", "nodes": [["n", 0, "1/2"]]},
    {"op": "insert", "via": "iadd", "nodes": [["ki", 0]]},
    {"op": "insert", "via": "method", "nodes": [["ke", 0]]},
    {"op": "insert", "via": "add", "nodes": [["out", "r", "1/2"]]},
    {"op": "insert", "via": "method", "nodes": [["ke", 0], ["ke", 1]]},
    {"op": "remove", "via": "method", "nodes": [["ki", 0]]},
    {"op": "remove", "via": "isub", "nodes": [["ke", 1]]},
    {"op": "shift", "via": "method", "v": ["v", "1/2"]},
    {"op": "scale", "via": "imul", "v": ["v", 2]},
    {"op": "scale", "via": "method", "v": ["v", 0]},
    {"op": "normalize"},
    {"op": "degree", "v": ["d", 1]},
    {"op": "degree", "v": ["d", -1]},
    {"op": "or", "other": 0, "build": _B},
    {"op": "split", "nodes": [["n", 0, "1/2"]]},
    {"op": "copy"},
]
BASES = [[0, 1], [0, "1/3", 1], [0, 0, 1, 1], [0, 0, "1/2", "1/2", 1, 1], [-1, -1, -1, 0, "1/2", 1, 1, 1]]


def enum_size(tier):
    L = 2 if tier == "quick" else 3
    return len(BASES) * len(ALPHABET) ** L


ENUMERATED = {"quick": (enum_size("quick"), "every sequence of 2 operations of a 16-operation alphabet (valid and invalid requests, in place and not) on 5 fixed vectors of degree 0..2"),
              "thorough": (enum_size("thorough"), "every sequence of 3 operations of a 16-operation alphabet (valid and invalid requests, in place and not) on 5 fixed vectors of degree 0..2")}


def enum_case(idx, tier):
    L = 2 if tier == "quick" else 3
    n = len(ALPHABET)
    base = BASES[idx // n ** L]
    k = idx % n ** L
    ops = []
    for pos in range(L):
        op = dict(ALPHABET[k % n])
        op["t"] = pos  # later operations may hit the members created by earlier ones
        ops.append(op)
        k //= n
    return {"U": base, "numtype": "frac", "literals": [], "mutated": [], "ops": ops, "enumerated": True}


def gen_case(rng, idx, tier):
    if idx < enum_size(tier):
        return enum_case(idx, tier)
    nops = rng.randint(5, 30) if tier == "quick" else rng.randint(10, 60)
    r = rng.random()
    if r < 0.2:
        U = gen.integer_kv(rng)
        nt = "int"
    else:
        deep = tier == "thorough" and rng.random() < 0.3
        U = gen.kv(rng, pmax=6 if deep else 4, nintmax=7 if deep else 4)
        nt = rng.choice(["frac", "frac", "frac", "float", "npfloat"])
    lits = [rng.randrange(len(BAD_LITERALS)) for _ in range(3)] + [-1 - rng.randrange(len(GOOD_LITERALS)) for _ in range(2)]
    mutated = []
    # invalid constructor data derived from the valid vector
    for _ in range(8):
        how = rng.choice(["swap", "dropend", "addend", "overmult", "tail", "degree", "transpose", "transpose", "replace", "replace", "reverse-part"])
        mutated.append([how, rng.randrange(10**6)])
    return {"U": lib.enc(U), "numtype": nt, "literals": lits, "mutated": mutated, "ops": [gen_op(rng) for _ in range(nops)]}


# ------------------------------------------------------------------ model helpers
class Member:
    """a pool member: library object + its list model"""

    def __init__(self, obj, L, exact):
        self.obj = obj
        self.L = L  # exact images (Fractions)
        self.exact = exact  # model says all numbers are int / Fraction


def lib_list(kv):
    return list(kv._KnotVector__internal)


def runs_pattern(vals):
    return [m for _, m in ref.runs(vals)]


def list_matches(actual, expected, exact):
    """actual: library numbers; expected: Fractions"""
    if len(actual) != len(expected):
        return f"length {len(actual)} != {len(expected)}"
    if exact:
        for i, (a, e) in enumerate(zip(actual, expected)):
            if not lib.is_exact_number(a):
                return f"knot {i} has type {type(a).__name__} in an exact history"
            if ref.fr(a) != e:
                return f"knot {i} = {a} != {e}"
        return None
    try:
        img = [ref.fr(a) for a in actual]
    except (TypeError, ValueError):
        return "non finite or non numeric knot"
    if runs_pattern(img) != runs_pattern(expected):
        return f"multiplicity pattern {runs_pattern(img)} != {runs_pattern(expected)}"
    for i, (a, e) in enumerate(zip(img, expected)):
        if abs(a - e) > F(1, 10**12) * max(1, abs(e)):
            return f"knot {i} = {float(a)!r} != {float(e)!r}"
    return None


def within_bounds(L):
    ks = ref.distinct(L)
    if any(abs(k) > BIG for k in ks):
        return False
    return all(b - a >= SEP for a, b in zip(ks, ks[1:]))


def resolve_atom(a, m, nt):
    """-> (library number or junk object, exact image or None)"""
    L = m.L
    actual = lib_list(m.obj)
    ks = ref.distinct(L)
    kind = a[0]
    if kind in ("k", "ki"):
        pool = ks if kind == "k" or len(ks) <= 2 else ks[1:-1]
        val = pool[a[1] % len(pool)]
        # take the library's own object for that knot
        for x in actual:
            if ref.fr(x) == val:
                return x, val
        return lib.num(val, "frac"), val
    if kind == "ke":
        val = ks[0] if a[1] == 0 else ks[-1]
        for x in actual:
            if ref.fr(x) == val:
                return x, val
        return lib.num(val, "frac"), val
    if kind == "n":
        j = a[1] % (len(ks) - 1)
        lo, hi = ks[j], ks[j + 1]
        val = lo + (hi - lo) * F(a[2])
        x = lib.num(val, "frac" if m.exact else ("npfloat" if nt == "npfloat" else "float"))
        return x, ref.fr(x)
    if kind == "out":
        d = F(a[2])
        val = ks[0] - d if a[1] == "l" else ks[-1] + d
        x = lib.num(val, "frac" if m.exact else "float")
        return x, ref.fr(x)
    if kind == "junk":
        return JUNK[a[1]], None
    raise ValueError(kind)


def classify_insert(L, vals):
    if any(v is None for v in vals):
        return "reject-any", None
    if any(v < L[0] or v > L[-1] for v in vals):
        return "reject-valueerror", None  # "inserting outside the interval" (also for degree 0, where the list would stay clamped)
    exp = sorted(L + vals)
    wf = ref.wellformed(exp)
    if wf is None:
        return "reject-valueerror", None
    return ("accept" if wf[0] == ref.degree(L) else "either"), exp


def classify_remove(L, vals):
    if any(v is None for v in vals):
        return "reject-any", None
    exp = list(L)
    for v in vals:
        if v in exp:
            exp.remove(v)
        else:
            return "reject-valueerror", None
    wf = ref.wellformed(exp)
    if wf is None:
        return "reject-valueerror", None
    return ("accept" if wf[0] == ref.degree(L) else "either"), exp


# ------------------------------------------------------------------ queries
def probe(ctx, m, tag):
    kv, L = m.obj, m.L
    wf = ref.wellformed(L)
    p, n = wf
    ks = ref.distinct(L)
    ctx.count("queries")
    o = call(lambda: (kv.degree, kv.npts, tuple(kv.knots), tuple(kv.limits), len(kv), list(kv)))
    if not ctx.check(o.ok, f"query:raises:{o.exc_name}", f"attribute queries raised {o.brief()} after {tag}"):
        return
    deg, npts, knots, limits, ln, it = o.value
    ctx.check(deg == p and npts == n and ln == len(L), "query:degree-npts", f"degree/npts/len = {deg}/{npts}/{ln}, element list says {p}/{n}/{len(L)} after {tag}")
    ctx.check(list_matches(list(knots), ks, m.exact) is None, "query:knots", f"knots = {knots} but distinct elements are {ks} after {tag}")
    ctx.check(list_matches(list(limits), [L[0], L[-1]], m.exact) is None, "query:limits", f"limits = {limits} but ends are {(L[0], L[-1])} after {tag}")
    actual = lib_list(kv)
    byval = {}
    for x in actual:
        byval.setdefault(ref.fr(x), x)
    probes = [(byval[k], k) for k in ks if k in byval]
    for a, b in zip(ks, ks[1:]):
        mid = (a + b) / 2
        x = lib.num(mid, "frac" if m.exact else "float")
        probes.append((x, ref.fr(x)))
    for x, q in probes:
        if not (L[0] <= q <= L[-1]):
            continue
        o = call(kv.span, x)
        want = ref.span(L, q)
        if q == L[-1]:
            want = n - 1
        ctx.check(o.ok and o.value == want, "query:span", f"span({x}) = {o.value if o.ok else o.brief()} but U[k] <= u < U[k+1] gives {want} after {tag}")
        o = call(kv.mult, x)
        ctx.check(o.ok and o.value == ref.mult(L, q), "query:mult", f"mult({x}) = {o.value if o.ok else o.brief()} but count is {ref.mult(L, q)} after {tag}")
        o = call(kv.valid, [x])
        ctx.check(o.ok and o.value is True, "query:valid", f"valid([{x}]) = {o.value if o.ok else o.brief()} for a node inside after {tag}")
    xs = [x for x, _ in probes]
    o = call(kv.span, xs)
    ctx.check(o.ok and isinstance(o.value, tuple) and list(o.value) == [n - 1 if q == L[-1] else ref.span(L, q) for _, q in probes], "query:span-seq", f"span(sequence) wrong after {tag}")
    o = call(kv.mult, xs)
    ctx.check(o.ok and isinstance(o.value, tuple) and list(o.value) == [ref.mult(L, q) for _, q in probes], "query:mult-seq", f"mult(sequence) wrong after {tag}")
    num = "frac" if m.exact else "float"
    outs = [lib.num(L[0] - 1, num), lib.num(L[-1] + 1, num), lib.num(L[0] - F(1, 500), num), lib.num(L[-1] + F(1, 500), num), math.inf, -math.inf]
    if m.exact:
        outs += [L[-1] + F(1, 10**12), L[0] - F(1, 10**12), L[-1] + F(1, 10**30)]
    else:
        outs += [math.nextafter(float(L[-1]), math.inf), math.nextafter(float(L[0]), -math.inf), float(L[-1]) + 1e-9 * max(1.0, abs(float(L[-1])))]
    for x in outs:
        o = call(kv.valid, x)
        ctx.check(o.ok and o.value is False, "query:valid-outside", f"valid({x}) = {o.value if o.ok else o.brief()} outside [{L[0]},{L[-1]}] after {tag}")
        for q, nm in ((kv.span, "span"), (kv.mult, "mult")):
            o = call(q, x)
            ctx.check((not o.ok) and isinstance(o.exc, ValueError), f"query:{nm}-outside", f"{nm}({x}) outside: {o.brief() if not o.ok else o.value} (ValueError expected) after {tag}")
    o = call(kv.valid, "a")
    ctx.check(o.ok and o.value is False, "query:valid-string", f"valid('a') = {o.value if o.ok else o.brief()}")
    o = call(kv.valid, [xs[0], outs[0]])
    ctx.check(o.ok and o.value is False, "query:valid-mixed", "valid([inside, outside]) is not False")


# ------------------------------------------------------------------ one step
def judge(ctx, m, cls, exp, o, opname, pre, result_member=None, new_exact=None):
    """compare the outcome of a mutating request on member m with the model classification"""
    post = lib.kv_digest(m.obj)
    tag = opname
    if cls == "skip":
        return
    rejected = not o.ok
    if cls.startswith("reject"):
        ctx.count("steps_reject")
        if not rejected:
            ctx.check(False, f"accepts-invalid:{opname}", f"{opname}: request outside the well-formed set was accepted; vector now {lib.short(lib_list(m.obj))}", before=lib.short(pre))
            # adopt whatever it is so later steps can go on if still well formed
            return "resync"
        if cls == "reject-valueerror":
            ctx.check(isinstance(o.exc, ValueError), f"wrong-exception:{opname}:{o.exc_name}", f"{opname}: rejected with {o.brief()} (ValueError required)")
        else:
            ctx.compared()
        ctx.check(post == pre, f"reject-not-atomic:{opname}", f"{opname}: raised {o.exc_name} but the vector changed", before=lib.short(pre), after=lib.short(post))
        return
    if cls == "either" and rejected:
        ctx.count("steps_either_rejected")
        ctx.check(post == pre, f"reject-not-atomic:{opname}", f"{opname}: raised {o.exc_name} but the vector changed")
        return
    # accept / either-accepted
    ctx.count("steps_accept" if cls == "accept" else "steps_either_accepted")
    if rejected:
        ctx.check(False, f"rejects-valid:{opname}:{o.exc_name}", f"{opname}: plainly valid request rejected with {o.brief()}", vector=lib.short(pre))
        ctx.check(post == pre, f"reject-not-atomic:{opname}", f"{opname}: raised but the vector changed")
        return
    return "ok"


def settle(ctx, m, exp, exact, opname):
    """after an accepted mutation: compare with the expected list, then adopt (resync in approx mode)"""
    actual = lib_list(m.obj)
    why = list_matches(actual, exp, exact)
    ctx.check(why is None, f"wrong-result:{opname}", f"{opname}: {why}; got {lib.short(actual)} expected {lib.short(exp)}")
    m.exact = exact
    try:
        img = [ref.fr(a) for a in actual]
    except (TypeError, ValueError):
        img = None
    if img is not None and ref.wellformed(img) is not None:
        m.L = img if why is None else img
        return True
    ctx.check(False, f"malformed-after:{opname}", f"{opname}: vector is no longer well formed: {lib.short(actual)}")
    return False


def run_case(case, ctx):
    from compmec.nurbs import KnotVector

    nt = case["numtype"]
    U = lib.dec(case["U"])
    # ---------------- constructor
    for li in case["literals"]:
        lit = BAD_LITERALS[li] if li >= 0 else GOOD_LITERALS[-1 - li]
        o = call(KnotVector, _copy.deepcopy(lit))
        if li >= 0:
            ctx.count("steps_reject")
            if o.ok:
                ctx.check(False, "accepts-invalid:constructor", f"KnotVector({lit}) accepted", vector=str(lit))
            else:
                ctx.check(isinstance(o.exc, ValueError), f"wrong-exception:constructor:{o.exc_name}", f"KnotVector({lit}) raised {o.brief()} (ValueError required)")
        else:
            if ctx.check(o.ok, f"rejects-valid:constructor:{o.exc_name}", f"KnotVector({lit}) rejected: {o.brief()}"):
                ctx.count("steps_accept")
                probe(ctx, Member(o.value, [ref.fr(x) for x in lit], all(isinstance(x, int) for x in lit)), "constructor")
    Un = lib.nums(U, nt)
    p, n = ref.wellformed(U)
    for how, r in case["mutated"]:
        V = list(Un)
        deg = None
        if how == "swap" and len(set(U)) > 1:
            i = r % (len(V) - 1)
            if V[i] == V[i + 1]:
                continue
            V[i], V[i + 1] = V[i + 1], V[i]
        elif how == "dropend":
            V = V[1:] if r % 2 else V[:-1]
        elif how == "addend":
            V = [V[0]] + V if r % 2 else V + [V[-1]]
        elif how == "overmult":
            ks = ref.distinct(U)
            if len(ks) <= 2:
                continue
            k = ks[1:-1][r % (len(ks) - 2)]
            V = sorted(V + [lib.num(k, nt)] * (p + 2 - ref.mult(U, k)))
        elif how == "tail":
            V = V + [V[-1] + 1] * (1 + r % 2)
        elif how == "degree":
            deg = p + [1, -1, 2][r % 3]
            if deg < 0:
                deg = p + 1
        elif how == "transpose":
            # any two positions holding different values (e.g. an interior knot moved inside a clamped end block)
            i, j = r % len(V), (r // 97) % len(V)
            if V[i] == V[j]:
                continue
            V[i], V[j] = V[j], V[i]
        elif how == "replace":
            i = r % len(V)
            pool_ = sorted(set(V)) + [V[0] - 1, V[-1] + 1, (V[0] + V[-1]) / 2]
            new_ = pool_[(r // 97) % len(pool_)]
            if new_ == V[i]:
                continue
            V[i] = new_
        elif how == "reverse-part":
            i = r % len(V)
            j = i + 2 + (r // 97) % 3
            V[i:j] = V[i:j][::-1]
        else:
            continue
        try:
            bad = ref.wellformed([ref.fr(x) for x in V]) is None or deg is not None
        except Exception:
            bad = True
        o = call(KnotVector, V, deg) if deg is not None else call(KnotVector, V)
        if not bad:
            ctx.count("steps_accept")
            if ctx.check(o.ok, f"rejects-valid:constructor:{o.exc_name}", f"KnotVector({lib.short(V)}) (still well formed after '{how}') rejected: {o.brief()}"):
                ctx.check(lib_list(o.value) == V, "wrong-result:constructor", "constructed vector differs from its data")
        if bad:
            ctx.count("steps_reject")
            if o.ok:
                ctx.check(False, f"accepts-invalid:constructor:{how}", f"KnotVector({lib.short(V)}, degree={deg}) accepted", how=how)
            else:
                ctx.check(isinstance(o.exc, ValueError), f"wrong-exception:constructor:{o.exc_name}", f"KnotVector({lib.short(V)}) raised {o.brief()}")
    o = call(KnotVector, Un)
    if not ctx.check(o.ok, f"rejects-valid:constructor:{o.exc_name}", f"KnotVector(valid {lib.short(Un)}) rejected: {o.brief()}"):
        return
    exact0 = nt in ("frac", "int")
    pool = [Member(o.value, [ref.fr(x) for x in Un], exact0)]
    ctx.cls(f"p{p}|int{len(ref.distinct(U)) - 2}|{nt}")
    probe(ctx, pool[0], "constructor")
    o = call(KnotVector, Un, p)
    ctx.check(o.ok and lib_list(o.value) == Un, "rejects-valid:constructor-degree", "KnotVector(vector, degree=its degree) rejected or differs")
    o = call(KnotVector, pool[0].obj)
    ctx.check(o.ok and o.value is pool[0].obj, "constructor:identity", "KnotVector(kv) is not kv")

    accepted = rejected = 0
    for step, op in enumerate(case["ops"]):
        m = pool[op["t"] % len(pool)]
        kv = m.obj
        L = m.L
        p, n = ref.wellformed(L)
        pre = lib.kv_digest(kv)
        others = [(x, lib.kv_digest(x.obj)) for x in pool if x is not m]
        name = op["op"]
        opname = name
        res = None
        before_counts = (ctx.counters["steps_accept"] + ctx.counters["steps_either_accepted"], ctx.counters["steps_reject"])
        numcls = "frac" if m.exact else "float"

        if name in ("insert", "remove"):
            pairs = [resolve_atom(a, m, nt) for a in op["nodes"]]
            xs = [x for x, _ in pairs]
            vals = [v for _, v in pairs]
            cls, exp = (classify_insert if name == "insert" else classify_remove)(L, vals)
            if exp is not None and not within_bounds(exp):
                ctx.count("skipped_bounds")
                continue
            via = op["via"]
            opname = f"{name}[{via}]"
            inplace = via in ("method", "iadd", "isub")
            if via == "method":
                o = call(getattr(kv, name), xs)
            elif via == "iadd":
                o = call(kv.__iadd__, xs)
            elif via == "isub":
                o = call(kv.__isub__, xs)
            elif via == "add":
                o = call(lambda: kv + xs)
            else:
                o = call(lambda: kv - xs)
            if inplace:
                r = judge(ctx, m, cls, exp, o, opname, pre)
                if r == "ok":
                    ctx.check(o.value is kv, f"return-self:{opname}", f"{opname} did not return the same instance")
                    settle(ctx, m, exp, m.exact, opname)
                elif r == "resync":
                    if not resync(ctx, m, opname):
                        return
            else:
                res = judge_new(ctx, m, cls, exp, o, opname, pre, m.exact)
        elif name == "shift":
            a = op["v"]
            via = op["via"]
            opname = f"shift[{via}]"
            if a[0] == "junk":
                x, v = JUNK[a[1]], None
                if a[1] == "list" and via in ("iadd", "isub", "add", "sub"):
                    continue  # a list means insert / remove there
            else:
                x = lib.num(F(a[1]), numcls)
                v = ref.fr(x)
            sign = -1 if via in ("isub", "sub") else 1
            cls, exp = ("reject-any", None) if v is None else ("accept", [k + sign * v for k in L])
            if exp is not None and not within_bounds(exp):
                ctx.count("skipped_bounds")
                continue
            fn = {"method": lambda: kv.shift(x), "iadd": lambda: kv.__iadd__(x), "isub": lambda: kv.__isub__(x), "add": lambda: kv + x, "sub": lambda: kv - x}[via]
            o = call(fn)
            if via in ("method", "iadd", "isub"):
                r = judge(ctx, m, cls, exp, o, opname, pre)
                if r == "ok":
                    ctx.check(o.value is kv, f"return-self:{opname}", f"{opname} did not return the same instance")
                    settle(ctx, m, exp, m.exact, opname)
                elif r == "resync" and not resync(ctx, m, opname):
                    return
            else:
                res = judge_new(ctx, m, cls, exp, o, opname, pre, m.exact)
        elif name == "scale":
            a = op["v"]
            via = op["via"]
            opname = f"scale[{via}]"
            if a[0] == "junk":
                x, v = JUNK[a[1]], None
            else:
                x = lib.num(F(a[1]), numcls)
                v = ref.fr(x)
            div = via in ("itruediv", "truediv")
            if v is None or v <= 0:
                cls, exp = "reject-any", None
            else:
                cls, exp = "accept", [k / v if div else k * v for k in L]
            if exp is not None and not within_bounds(exp):
                ctx.count("skipped_bounds")
                continue
            fn = {"method": lambda: kv.scale(x), "imul": lambda: kv.__imul__(x), "itruediv": lambda: kv.__itruediv__(x),
                  "mul": lambda: kv * x, "rmul": lambda: x * kv, "truediv": lambda: kv / x}[via]
            o = call(fn)
            # int vector divided: python true division gives floats
            new_exact = m.exact
            if div and m.exact and any(isinstance(k, int) for k in lib_list(kv)) and v is not None and isinstance(x, F):
                new_exact = True
            if via in ("method", "imul", "itruediv"):
                r = judge(ctx, m, cls, exp, o, opname, pre)
                if r == "ok":
                    ctx.check(o.value is kv, f"return-self:{opname}", f"{opname} did not return the same instance")
                    settle(ctx, m, exp, new_exact, opname)
                elif r == "resync" and not resync(ctx, m, opname):
                    return
            else:
                res = judge_new(ctx, m, cls, exp, o, opname, pre, new_exact)
        elif name == "normalize":
            exp = [(k - L[0]) / (L[-1] - L[0]) for k in L]
            if not within_bounds(exp):
                ctx.count("skipped_bounds")
                continue
            # int knots: 1/int is a float in python
            new_exact = m.exact and not any(isinstance(k, int) for k in lib_list(kv))
            o = call(kv.normalize)
            r = judge(ctx, m, "accept", exp, o, opname, pre)
            if r == "ok":
                ctx.check(o.value is kv, "return-self:normalize", "normalize did not return the same instance")
                settle(ctx, m, exp, new_exact, opname)
                if new_exact:
                    ctx.check(tuple(kv.limits) == (0, 1), "normalize:limits", f"normalize() gave limits {kv.limits}")
        elif name == "convert":
            c = {"int": int, "float": float, "Fraction": F}[op["cls"]]
            opname = f"convert[{op['cls']}]"
            if c is int:
                trunc = [F(int(k)) for k in L]  # int() truncates toward zero
                if all(k.denominator == 1 for k in L):
                    cls, exp, new_exact = "accept", list(L), True
                elif all(abs(t - k) <= F(1, 10**9) for t, k in zip(trunc, L)) and ref.wellformed(trunc) is not None:
                    # within the method's own 1e-9 tolerance (a float one ulp above an integer): either outcome
                    cls, exp, new_exact = "either", trunc, True
                else:
                    cls, exp, new_exact = "reject-valueerror", None, m.exact
            elif c is float:
                exp = [F(float(k)) for k in L]
                cls, new_exact = ("accept" if exp == L else "either"), False
            else:
                cls, exp, new_exact = "accept", list(L), True
            o = call(kv.convert, c)
            r = judge(ctx, m, cls, exp, o, opname, pre)
            if r == "ok":
                ctx.check(o.value is kv, f"return-self:{opname}", "convert did not return the same instance")
                if settle(ctx, m, exp, new_exact, opname):
                    ctx.check(all(type(k) is c or (c is float and isinstance(k, float)) for k in lib_list(kv)), f"convert:type:{op['cls']}", f"convert({op['cls']}) left knots of type {set(type(k).__name__ for k in lib_list(kv))}")
            elif r == "resync" and not resync(ctx, m, opname):
                return
        elif name == "degree":
            a = op["v"]
            if a[0] == "junk":
                x = JUNK[a[1]]
                cls, exp = "reject-any", None
            else:
                x = p + a[1]
                ks = ref.distinct(L)
                if x >= p:
                    cls, exp = "accept", sorted(L + ks * (x - p))
                else:
                    ok = x >= 0 and all(ref.mult(L, k) >= p - x for k in ks)
                    exp = None
                    if ok:
                        exp = list(L)
                        for k in ks:
                            for _ in range(p - x):
                                exp.remove(k)
                        ok = ref.wellformed(exp) is not None and ref.degree(exp) == x
                    cls = "accept" if ok else "reject-any"
                    exp = exp if ok else None
            o = call(setattr, kv, "degree", x)
            r = judge(ctx, m, cls, exp, o, "degree=", pre)
            opname = "degree="
            if r == "ok":
                settle(ctx, m, exp, m.exact, opname)
            elif r == "resync" and not resync(ctx, m, opname):
                return
        elif name in ("or", "and", "ior", "iand"):
            b = op["build"]
            other_m = None
            if b["usepool"] and len(pool) > 1:
                other_m = pool[op["other"] % len(pool)]
                V, Vn = other_m.L, None
                other_obj = other_m.obj
            else:
                ks = ref.distinct(L)
                q = max(0, p + b["dq"])
                inner = [k for k, keep in zip(ks[1:-1], b["keep"]) if keep]
                for a in b["new"]:
                    _, v = resolve_atom(a, m, nt)
                    if all(abs(v - k) >= SEP for k in ks + inner):
                        inner.append(v)
                inner = sorted(set(inner))
                V = [ks[0]] * (q + 1)
                for k, mm in zip(inner, b["mults"]):
                    V += [k] * (1 + (mm - 1) % (q + 1))
                V += [ks[-1]] * (q + 1)
                if b["shiftit"]:
                    V = [k + 1 for k in V]
                byval = {ref.fr(x): x for x in lib_list(kv)}
                Vn = [byval.get(k, lib.num(k, numcls)) for k in V]
                V = [ref.fr(x) for x in Vn]
                oo = call(KnotVector, Vn)
                if not oo.ok:
                    ctx.check(False, f"rejects-valid:constructor:{oo.exc_name}", f"KnotVector({lib.short(Vn)}) rejected: {oo.brief()}")
                    continue
                other_obj = oo.value
            if not within_bounds(sorted(set(L) | set(V))):
                ctx.count("skipped_bounds")  # e.g. a float vector against its own Fraction pre-image: knots 1 ulp apart
                continue
            opre = lib.kv_digest(other_obj)
            q = ref.degree(V)
            if (V[0], V[-1]) != (L[0], L[-1]):
                cls, exp = "reject-valueerror", None
            elif q == p:
                cls, exp = "accept", (ref.union(L, V) if name in ("or", "ior") else ref.intersection(L, V))
            else:
                cls, exp = "open", None  # content judged by C17; here only well-formedness / atomicity
            inplace = name in ("ior", "iand")
            pyop = {"or": lambda: kv | other_obj, "and": lambda: kv & other_obj, "ior": lambda: kv.__ior__(other_obj), "iand": lambda: kv.__iand__(other_obj)}[name]
            o = call(pyop)
            opname = name
            ctx.check(lib.kv_digest(other_obj) == opre, f"operand-modified:{name}", f"{name}: right operand modified")
            both_exact = m.exact and (other_m.exact if other_m else True)
            if cls == "open":
                ctx.count("steps_open")
                if o.ok:
                    target = kv if inplace else o.value
                    img = [ref.fr(x) for x in lib_list(target)]
                    if ctx.check(ref.wellformed(img) is not None, f"malformed-after:{name}", f"{name} of degrees {p},{q} produced a malformed vector {lib.short(img)}"):
                        if inplace:
                            m.L, m.exact = img, both_exact and all(lib.is_exact_number(x) for x in lib_list(target))
                        else:
                            res = Member(o.value, img, all(lib.is_exact_number(x) for x in lib_list(target)))
                    else:
                        if inplace:
                            return
                    if not inplace:
                        ctx.check(lib.kv_digest(kv) == pre, f"receiver-modified:{name}", f"{name} modified its left operand")
                else:
                    ctx.check(lib.kv_digest(kv) == pre, f"reject-not-atomic:{name}", f"{name} raised and changed the vector")
            elif inplace:
                r = judge(ctx, m, cls, exp, o, opname, pre)
                if r == "ok":
                    ctx.check(o.value is kv, f"return-self:{name}", f"{name} did not return the same instance")
                    settle(ctx, m, exp, both_exact, opname)
                elif r == "resync" and not resync(ctx, m, opname):
                    return
            else:
                res = judge_new(ctx, m, cls, exp, o, opname, pre, both_exact)
        elif name == "split":
            pairs = [resolve_atom(a, m, nt) for a in op["nodes"]]
            xs = [x for x, _ in pairs]
            vals = [v for _, v in pairs]
            if any(v is None for v in vals):
                cls = "reject-any"
            elif any(not (L[0] <= v <= L[-1]) for v in vals):
                cls = "reject-valueerror"
            else:
                cls = "accept"
            o = call(kv.split, xs)
            ctx.check(lib.kv_digest(kv) == pre, "receiver-modified:split", "split modified the vector")
            if cls != "accept":
                ctx.count("steps_reject")
                if o.ok:
                    ctx.check(False, "accepts-invalid:split", f"split({lib.short(xs)}) accepted")
                elif cls == "reject-valueerror":
                    ctx.check(isinstance(o.exc, ValueError), f"wrong-exception:split:{o.exc_name}", f"split(outside) raised {o.brief()}")
            else:
                ctx.count("steps_accept")
                if ctx.check(o.ok, f"rejects-valid:split:{o.exc_name}", f"split({lib.short(xs)}) raised {o.brief()}"):
                    cuts = sorted(set(vals) | {L[0], L[-1]})
                    pieces = o.value
                    if ctx.check(isinstance(pieces, tuple) and len(pieces) == len(cuts) - 1, "split:count", f"split gave {len(pieces)} vectors for cuts {cuts}"):
                        for (a, bb), piece in zip(zip(cuts, cuts[1:]), pieces):
                            exp = [a] * (p + 1) + [k for k in L if a < k < bb] + [bb] * (p + 1)
                            why = list_matches(lib_list(piece), exp, m.exact)
                            ctx.check(why is None, "split:piece", f"split piece on [{a},{bb}]: {why}")
                        if len(pieces) > 1 and len(pool) < 6:
                            pc = pieces[step % len(pieces)]
                            img = [ref.fr(x) for x in lib_list(pc)]
                            if ref.wellformed(img):
                                res = Member(pc, img, all(lib.is_exact_number(x) for x in lib_list(pc)))
        elif name in ("copy", "deepcopy", "KnotVector"):
            if name == "KnotVector":
                o = call(KnotVector, lib_list(kv))
            else:
                o = call(getattr(_copy, name), kv)
            ctx.count("steps_accept")
            if ctx.check(o.ok, f"rejects-valid:{name}:{o.exc_name}", f"{name} raised {o.brief()}"):
                ctx.check(o.value is not kv and lib_list(o.value) == lib_list(kv), f"copy:equal:{name}", f"{name} is not an equal, distinct vector")
                res = Member(o.value, list(L), m.exact)
        else:
            raise ValueError(name)

        if res is not None and len(pool) < 6:
            pool.append(res)
        # nobody else moved
        for x, d in others:
            ctx.check(lib.kv_digest(x.obj) == d, f"aliasing:{name}", f"{opname} on one vector changed another pool member")
        # every member still agrees with its model and answers queries
        for x in pool:
            why = list_matches(lib_list(x.obj), x.L, x.exact)
            ctx.check(why is None, f"drift:{name}", f"after {opname}: pool member differs from its model: {why}")
        probe(ctx, m, opname)
        if res is not None and res in pool:
            probe(ctx, res, opname + " (result)")
        a2, r2 = ctx.counters["steps_accept"] + ctx.counters["steps_either_accepted"], ctx.counters["steps_reject"]
        accepted += a2 - before_counts[0]
        rejected += r2 - before_counts[1]
    ctx.mark_nontrivial((accepted >= 3 and rejected >= 1) or (case.get("enumerated") and accepted + rejected >= 2))


def resync(ctx, m, opname):
    """after an accepted-but-invalid request: continue only if the object is still well formed"""
    try:
        img = [ref.fr(a) for a in lib_list(m.obj)]
    except (TypeError, ValueError):
        return False
    if ref.wellformed(img) is None:
        ctx.check(False, f"malformed-after:{opname}", f"{opname}: vector is no longer well formed: {lib.short(img)}")
        return False
    m.L = img
    return True


def judge_new(ctx, m, cls, exp, o, opname, pre, exact):
    """non in-place operator: receiver untouched, result independent and equal to the expected list"""
    kv = m.obj
    ctx.check(lib.kv_digest(kv) == pre, f"receiver-modified:{opname}", f"{opname} modified its operand")
    if cls.startswith("reject"):
        ctx.count("steps_reject")
        if o.ok:
            ctx.check(False, f"accepts-invalid:{opname}", f"{opname}: invalid request produced {lib.short(lib_list(o.value)) if hasattr(o.value, '_KnotVector__internal') else lib.short(o.value)}")
        elif cls == "reject-valueerror":
            ctx.check(isinstance(o.exc, ValueError), f"wrong-exception:{opname}:{o.exc_name}", f"{opname}: rejected with {o.brief()} (ValueError required)")
        else:
            ctx.compared()
        return None
    if not o.ok:
        if cls == "either":
            ctx.count("steps_either_rejected")
            return None
        ctx.count("steps_accept")
        ctx.check(False, f"rejects-valid:{opname}:{o.exc_name}", f"{opname}: plainly valid request rejected with {o.brief()}")
        return None
    ctx.count("steps_accept" if cls == "accept" else "steps_either_accepted")
    new = o.value
    if not ctx.check(hasattr(new, "_KnotVector__internal") and new is not kv, f"result-type:{opname}", f"{opname} returned {type(new).__name__}"):
        return None
    why = list_matches(lib_list(new), exp, exact)
    ctx.check(why is None, f"wrong-result:{opname}", f"{opname}: {why}; got {lib.short(lib_list(new))} expected {lib.short(exp)}")
    img = [ref.fr(x) for x in lib_list(new)]
    if ref.wellformed(img) is None:
        ctx.check(False, f"malformed-after:{opname}", f"{opname}: result is not well formed {lib.short(img)}")
        return None
    return Member(new, img, exact)
