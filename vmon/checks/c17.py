"""C17 - KnotVector union / intersection give the common refinement / common coarsening."""
import copy as _copy
from fractions import Fraction as F

from .. import gen, lib, ref
from ..lib import call

PROP = "C17"
PLAN = {"quick": (2400, 300), "thorough": (224 * 224 + 10000, 3000)}
LARGE = (0.03, 20)  # (share, largest size) of the large class of gen.kv: 17+ control points, degree up to 8
STEP_BUDGET = 20_000_000  # loop line events per outermost call: ten times the default, for the large class
RULE = ("case = pair of knot vectors on a common interval: equal / different degrees x shared / distinct interior knots x "
        "multiplicities (and pairs on different intervals); on KnotVector and heavy.ImmutableKnotVector, in place and "
        "not. Oracle: continuity-class formula; independently, every B-spline of U and of V is exactly representable on "
        "the library's U|V and dropping any copy of any interior knot of it breaks that; commutative, idempotent, "
        "operands unchanged. non-trivial = both operands have interior knots or the degrees differ; distinct = case JSON")
ANCHORS = ["ImmutableKnotVector.__or__", "ImmutableKnotVector.__and__", "KnotVector.__or__", "KnotVector.__and__", "KnotVector.__ior__", "KnotVector.__iand__"]
MIN_COUNTERS = {"unions": 300, "intersections": 100, "representability_checks": 100, "minimality_checks": 100}
ASSUMPTIONS = ["intersection is judged for equal degrees only (as the statement says)"]


_GRID = None


def grid_vectors():
    """every clamped vector of degree <= 3 on [0,1] whose interior knots are a subset of {1/4,1/2,3/4}: 224 vectors"""
    global _GRID
    if _GRID is None:
        import itertools

        out = []
        for p in range(4):
            for mults in itertools.product(range(p + 2), repeat=3):
                U = [F(0)] * (p + 1)
                for k, m in zip((F(1, 4), F(1, 2), F(3, 4)), mults):
                    U += [k] * m
                U += [F(1)] * (p + 1)
                out.append(U)
        _GRID = out
    return _GRID


ENUMERATED = {"thorough": (224 * 224, "all ordered pairs of the 224 clamped vectors of degree <= 3 on [0,1] with interior knots in {1/4,1/2,3/4} (any multiplicities)"),
              "quick": (0, "none (random pairs only)")}


def gen_case(rng, idx, tier):
    if tier == "thorough" and idx < 224 * 224:
        G = grid_vectors()
        return {"U": lib.enc(G[idx // 224]), "V": lib.enc(G[idx % 224]), "numtype": "frac", "rel": "grid", "shifted": False, "check_min": idx % 37 == 0, "light": idx % 37 != 0}
    nt = rng.choice(["frac", "frac", "float", "int"])
    if nt == "int":
        U = gen.integer_kv(rng, pmax=3, nintmax=3)
    else:
        U = gen.kv(rng, pmax=3, nintmax=3)
    p = ref.degree(U)
    a, b = U[0], U[-1]
    ku = ref.distinct(U)[1:-1]
    q = p if rng.random() < 0.5 else rng.randint(0, 3)
    rel = rng.choice(["shared", "distinct", "mixed", "none", "subset"])
    if nt == "int":
        pool = [F(k) for k in range(int(a) + 1, int(b))]
    else:
        pool = [a + (b - a) * F(i, 12) for i in range(1, 12)]
    if rel == "shared":
        kv_ = list(ku)
    elif rel == "distinct":
        kv_ = [k for k in pool if k not in ku][: rng.randint(1, 3)]
    elif rel == "mixed":
        kv_ = sorted(set([k for k in ku if rng.random() < 0.6] + rng.sample(pool, min(len(pool), rng.randint(0, 2)))))
    elif rel == "subset":
        kv_ = [k for k in ku if rng.random() < 0.5]
    else:
        kv_ = []
    V = gen.kv_from(a, b, q, kv_, [rng.randint(1, q + 1) for _ in kv_])
    shifted = rng.random() < 0.06
    if shifted:
        V = [k + 1 for k in V]
    return {"U": lib.enc(U), "V": lib.enc(V), "numtype": nt, "rel": rel, "shifted": shifted, "check_min": rng.random() < 0.4}


def unit_splines(X):
    q, m = ref.wellformed(X)
    return [ref.RC(X, [(F(int(i == k)),) for k in range(m)]) for i in range(m)]


def run_case(case, ctx):
    from compmec.nurbs import KnotVector
    from compmec.nurbs.heavy import ImmutableKnotVector

    nt = case["numtype"]
    U, V = lib.dec(case["U"]), lib.dec(case["V"])
    Un, Vn = lib.nums(U, nt), lib.nums(V, nt)
    Uq, Vq = [ref.fr(x) for x in Un], [ref.fr(x) for x in Vn]
    p, q = ref.degree(Uq), ref.degree(Vq)
    exact = nt in ("frac", "int")
    eq = p == q
    ctx.cls(f"p{p}|q{q}|{case['rel']}|{nt}")
    ctx.mark_nontrivial((len(ref.distinct(Uq)) > 2 and len(ref.distinct(Vq)) > 2) or not eq)
    ku, kv = KnotVector(Un), KnotVector(Vn)
    iu, iv = ImmutableKnotVector(Un), ImmutableKnotVector(Vn)
    pu, pv = lib.kv_digest(ku), lib.kv_digest(kv)
    feat = "eqdeg" if eq else "difdeg"
    results = {}
    for name, fn in (("U|V", lambda: ku | kv), ("V|U", lambda: kv | ku), ("U&V", lambda: ku & kv), ("V&U", lambda: kv & ku),
                     ("imm U|V", lambda: iu | iv), ("imm V|U", lambda: iv | iu), ("imm U&V", lambda: iu & iv),
                     ("U|U", lambda: ku | ku), ("U&U", lambda: ku & ku)):
        o = call(fn)
        results[name] = o
        ctx.check(lib.kv_digest(ku) == pu and lib.kv_digest(kv) == pv, f"operand-modified:{name}", f"{name} modified an operand")
    if case["shifted"]:
        for name in ("U|V", "V|U", "U&V", "imm U|V", "imm U&V"):
            o = results[name]
            ctx.check((not o.ok) and isinstance(o.exc, ValueError), f"different-intervals:{name}", f"{name} on different intervals: {o.brief() if not o.ok else 'accepted'}")
        return
    ctx.count("unions")
    wantU = ref.union(Uq, Vq)

    def as_list(o):
        return [ref.fr(x) for x in o.value]

    for name in ("U|V", "V|U", "imm U|V", "imm V|U"):
        o = results[name]
        if not ctx.check(o.ok, f"union:raises:{o.exc_name}:{feat}", f"{name} raised {o.brief()}"):
            continue
        got = as_list(o)
        ctx.check(got == wantU, f"union:wrong:{feat}", f"{name} = {lib.short(got)} but the coarsest common refinement is {lib.short(wantU)}")
        if name == "U|V":
            ctx.check(type(o.value).__name__ == "KnotVector" and o.value is not ku and o.value is not kv, "union:result-type", "U|V is not a new KnotVector")
            if exact:
                ctx.check(all(lib.is_exact_number(x) for x in o.value), "union:float-introduced", "U|V of exact vectors contains floats")
    o = results["U|U"]
    ctx.check(o.ok and as_list(o) == Uq, "union:not-idempotent", f"U|U = {lib.short(as_list(o)) if o.ok else o.brief()}")
    # independent of the formula: representability and minimality on the library's own result
    o = results["U|V"]
    if case.get("light"):
        pass  # enumerated pair: formula, commutativity, idempotence, operands; representability on every 37th pair
    elif o.ok and ref.wellformed(as_list(o)) is not None:
        got = as_list(o)
        ctx.count("representability_checks")
        okrep = all(ref.represent_curve(e, got) is not None for X in (Uq, Vq) for e in unit_splines(X)) if (got[0], got[-1]) == (Uq[0], Uq[-1]) else False
        ctx.check(okrep, f"union:not-a-refinement:{feat}", f"some B-spline of U or V is not representable on U|V = {lib.short(got)}")
        if case["check_min"] and okrep:
            ctx.count("minimality_checks")
            for k in ref.distinct(got)[1:-1]:
                W2 = list(got)
                W2.remove(k)
                still = ref.wellformed(W2) is not None and ref.degree(W2) == ref.degree(got) and all(
                    ref.represent_curve(e, W2) is not None for X in (Uq, Vq) for e in unit_splines(X))
                ctx.check(not still, f"union:not-coarsest:{feat}", f"U|V = {lib.short(got)} is not the coarsest: a copy of {k} can be dropped")
    elif o.ok:
        ctx.check(False, f"union:malformed:{feat}", f"U|V is not a well formed vector: {lib.short(as_list(o))}")
    # in place
    k2 = _copy.deepcopy(ku)
    o = call(k2.__ior__, kv)
    if ctx.check(o.ok, f"union:raises:{o.exc_name}:{feat}", f"U |= V raised {o.brief()}"):
        ctx.check(o.value is k2 and [ref.fr(x) for x in k2] == wantU, f"union:wrong:{feat}", "U |= V differs from the common refinement")
        ctx.check(lib.kv_digest(kv) == pv, "operand-modified:ior", "U |= V modified V")
    # intersection
    if eq:
        ctx.count("intersections")
        wantI = ref.intersection(Uq, Vq)
        for name in ("U&V", "V&U", "imm U&V"):
            o = results[name]
            if ctx.check(o.ok, f"intersection:raises:{o.exc_name}", f"{name} raised {o.brief()}"):
                ctx.check(as_list(o) == wantI, "intersection:wrong", f"{name} = {lib.short(as_list(o))} but per-knot minimum is {lib.short(wantI)}")
        o = results["U&U"]
        ctx.check(o.ok and as_list(o) == Uq, "intersection:not-idempotent", "U&U != U")
        k3 = _copy.deepcopy(ku)
        o = call(k3.__iand__, kv)
        if ctx.check(o.ok, f"intersection:raises:{o.exc_name}", f"U &= V raised {o.brief()}"):
            ctx.check(o.value is k3 and [ref.fr(x) for x in k3] == wantI, "intersection:wrong", "U &= V differs from the per-knot minimum")
    else:
        for name in ("U&V", "V&U"):
            o = results[name]
            if o.ok:
                ctx.check(ref.wellformed(as_list(o)) is not None, "intersection:malformed", f"{name} of different degrees is malformed: {lib.short(as_list(o))}")
            else:
                ctx.compared()
