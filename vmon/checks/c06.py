"""C06 - degree elevation is exact; degree reduction is its inverse or is refused."""
from fractions import Fraction as F

from .. import cv, gen, lib, ref
from ..lib import call
from .c05 import deviation_ok

PROP = "C06"
PLAN = {"quick": (1400, 300), "thorough": (20000, 3600)}
LARGE = (0.02, 19)  # (share, largest size) of the large class of gen.kv: 17+ control points, degree up to 8
STEP_BUDGET = 20_000_000  # loop line events per outermost call: ten times the default, for the large class
RULE = ("case = (curve, t, regime, via method|setter); regimes: elevate (p<=4, t in 1..3: Bezier, multi-span, mixed "
        "multiplicities, multiplicity p+1, interior knot 0, rational), reduce-exact (curve built by the reference "
        "elevation of a degree-q curve, reduced by the same t), reduce-generic (random curve, default tolerance or "
        "tolerance=None: interpolation at the remaining knots and residual L2-orthogonal to the admissible variations), invalid t (0, negative, non int, larger than the degree). non-trivial = the curve has an "
        "interior knot or weights; distinct = case JSON")
ANCHORS = ["Operations.degree_increase_bezier_once", "Operations.degree_increase", "Operations.split_curve", "Curve.degree_increase",
           "Curve.degree_decrease", "BaseCurve.update"]
MIN_COUNTERS = {"elevations": 20, "reduce_exact": 20, "reduce_generic": 10, "invalid_requests": 5, "best_approximation_checks": 10}
ASSUMPTIONS = ["rational representability decided in homogeneous form", "float class judged on well-conditioned curves to 1e-9 (1e-8 for round trips)"]


def gen_case(rng, idx, tier):
    r = rng.random()
    nt = cv.pick_numtype(rng, None, 0.25)
    via = rng.choice(["method", "method", "setter"])
    if r < 0.4:
        want_zero = rng.random() < 0.2
        cur = gen.curve(rng, itv=(F(-1), F(1)) if want_zero else None, want_zero=want_zero or None, nintmax=3)
        d = cv.enc_curve(cur, nt)
        small = len(cur["P"]) <= 8 and nt == "frac"  # float evaluation at degree 10+ is not accurate to 1e-9: exact class only
        # one elevation in eight by 4..12 at once (the library multiplies one-step matrices; a closed form would differ there)
        d.update(regime="elevate", t=(rng.choice([1, 1, 2, 3]) if small else 1) if rng.random() < 0.87 or not small else rng.randint(4, 12), via=via)
        return d
    if r < 0.7:
        base = gen.curve(rng, pmax=3, nintmax=3, large=False)
        t = rng.choice([1, 1, 2]) if rng.random() < 0.9 else rng.choice([3, 5, 7, 8])
        el = ref.elevate(lib.case_rc(base["U"], base["P"], base["W"]), t)
        scal = not isinstance(base["P"][0], list)
        P = [pt[0] for pt in el.P] if scal else [list(pt) for pt in el.P]
        d = cv.enc_curve({"U": el.U, "P": P, "W": el.W}, nt)
        d.update(regime="reduce-exact", t=t, via=via, base=cv.enc_curve(base, nt), tol=rng.choice(["default", "default", "None"]))
        return d
    if r < 0.9:
        cur = gen.curve(rng, p=rng.randint(1, 4), nintmax=3, large=False)
        d = cv.enc_curve(cur, nt)
        d.update(regime="reduce-generic", t=rng.choice([1, 1, 1, 2]), via=via, tol=rng.choice(["default", "default", "None", "1e-3"]))
        return d
    cur = gen.curve(rng, nintmax=2, large=False)
    d = cv.enc_curve(cur, nt)
    p = ref.degree(cur["U"])
    d.update(regime="invalid", bad=rng.choice(["zero", "neg", "float", "str", "toolarge", "none"]), op=rng.choice(["inc", "dec", "set"]))
    return d


def run_case(case, ctx):
    U, P, W, nt = cv.dec_curve(case)
    b = cv.build(ctx, case)
    if b is None:
        return
    curve, rc, exact = b
    p = rc.p
    kind = "rat" if W is not None else "poly"
    judged = exact or gen.well_conditioned(U, W)
    regime = case["regime"]
    ctx.cls(cv.label(U, P, W, nt) + f"|{regime}|t{case.get('t')}|{case.get('tol', '')}")
    ctx.mark_nontrivial(len(ref.distinct(U)) > 2 or W is not None)
    pre = lib.curve_digest(curve)

    if regime == "invalid":
        ctx.count("invalid_requests")
        bad, op = case["bad"], case["op"]
        val = {"zero": 0, "neg": -1, "float": 1.0, "str": "a", "toolarge": p + 1, "none": None}[bad]
        if op == "inc":
            if bad == "toolarge":
                return
            o = call(curve.degree_increase, val)
        elif op == "dec":
            o = call(curve.degree_decrease, val)
        else:
            if bad in ("zero", "toolarge"):
                # degree = p is a no-op
                o = call(setattr, curve, "degree", p)
                ctx.check(o.ok, "degree:noop-raises", f"curve.degree = {p} (its degree) raised {o.brief()}")
                cv.unchanged(ctx, curve, pre, "degree:noop-modified", "curve.degree = current degree")
                return
            val = {"neg": -1, "float": float(p + 1), "str": "a", "none": None}[bad]
            o = call(setattr, curve, "degree", val)
        if o.ok:
            ctx.check(False, f"degree:accepts-invalid:{op}:{bad}", f"degree change {op}({val!r}) was accepted")
        else:
            ctx.compared()
        cv.unchanged(ctx, curve, pre, f"degree:not-atomic:{op}:{bad}", f"invalid degree change {op}({val!r})")
        return

    t = case["t"]
    if regime == "elevate":
        ctx.count("elevations")
        o = call(curve.degree_increase, t) if case["via"] == "method" else call(setattr, curve, "degree", p + t)
        zero = "zero" if (0 in rc.U[1:-1] and rc.U[0] < 0) else "nonzero"
        if not ctx.check(o.ok, f"elevate:raises:{o.exc_name}:{zero}", f"degree_increase({t}) raised {o.brief()}"):
            cv.unchanged(ctx, curve, pre, "elevate:not-atomic", "degree_increase raised")
            return
        exp = sorted(rc.U + ref.distinct(rc.U) * t)
        why = cv.knots_match(lib.curve_state(curve)[0], exp, exact)
        ctx.check(why is None, "elevate:knots", f"after degree_increase({t}): {why}")
        ctx.check(curve.degree == p + t, "elevate:degree", f"degree is {curve.degree}, expected {p + t}")
        new = cv.state_rc(ctx, curve, "degree_increase")
        if new is None:
            return
        if exact:
            fl = cv.exact_state(curve)
            ctx.check(fl is None, f"elevate:type:{kind}", f"float introduced by exact elevation at {fl}")
        if judged:
            d = cv.function_diff(rc, new, exact)
            ctx.check(d is None, f"elevate:function:{kind}", f"degree_increase({t}) changed the curve: {d}")
            cv.lib_eval_matches(ctx, curve, rc, exact, "elevate")
        return

    tolname = case.get("tol", "default")
    kwargs = {}
    tol = F(1, 10**9)
    if tolname == "None":
        kwargs["tolerance"] = None
        tol = None
    elif tolname == "1e-3":
        kwargs["tolerance"] = 1e-3
        tol = F(1, 1000)
    if case["via"] == "setter" and tolname == "default":
        o = call(setattr, curve, "degree", p - t)
    else:
        o = call(curve.degree_decrease, t, **kwargs)
    V = ref.lowered_vector(rc.U, t) if p - t >= 0 else None
    if regime == "reduce-exact" and not judged:
        ctx.count("unjudged_float")  # float images on long / far intervals: the 1e-9 tolerance meets rounding noise
        return
    if regime == "reduce-exact":
        ctx.count("reduce_exact")
        bU, bP, bW, _ = cv.dec_curve(case["base"])
        base = lib.case_rc(bU, bP, bW, nt)
        if not ctx.check(o.ok, f"reduce:refuses-reducible:{kind}:{o.exc_name}", f"degree_decrease({t}) of an elevated curve was refused: {o.brief()}", tol=tolname):
            cv.unchanged(ctx, curve, pre, "reduce:not-atomic", "degree_decrease raised")
            return
        why = cv.knots_match(lib.curve_state(curve)[0], base.U, exact)
        ctx.check(why is None, "reduce:knots", f"after degree_decrease({t}): {why}")
        new = cv.state_rc(ctx, curve, "degree_decrease")
        if new is None or why is not None:
            return
        if exact:
            fl = cv.exact_state(curve)
            ctx.check(fl is None, f"reduce:type:{kind}", f"float introduced by exact degree reduction at {fl}")
        if judged:
            d = cv.function_diff(base, new, exact, 1e-8)
            ctx.check(d is None, f"reduce:not-inverse:{kind}", f"degree_decrease({t}) does not undo the elevation: {d}")
            if exact and W is None:
                ctx.check(new.P == base.P, "reduce:ctrlpoints", "control points differ from the original representation")
        return

    # reduce-generic
    ctx.count("reduce_generic")
    if V is None:
        # the knot vector itself cannot be lowered (t exceeds a multiplicity or the degree)
        if o.ok:
            new = cv.state_rc(ctx, curve, "degree_decrease")
            ctx.check(new is not None and new.p == p - t, "reduce:degree", "degree_decrease succeeded with a wrong degree")
        else:
            ctx.compared()
            cv.unchanged(ctx, curve, pre, "reduce:not-atomic:refused", "degree_decrease refused")
        return
    target = ref.represent_curve(rc, V) if judged else None
    if not o.ok:
        if not isinstance(o.exc, ValueError):
            ctx.check(False, f"reduce:raises:{o.exc_name}:{kind}", f"degree_decrease({t}, tol={tolname}) raised {o.brief()}")
        cv.unchanged(ctx, curve, pre, f"reduce:not-atomic:refused:{kind}", "degree_decrease refused")
        if tol is None:
            why = "weight-root" if ("Zero division" in str(o.exc) or "weights change sign" in str(o.exc)) else "other"
            ctx.check(False, f"reduce:none-refused:{kind}:{why}", f"degree_decrease(tolerance=None) raised {o.brief()}")
        elif target is not None:
            ctx.check(False, f"reduce:refuses-reducible:{kind}:{o.exc_name}", f"representable at degree {p - t} but refused: {o.brief()}")
        else:
            ctx.count("refused_nonreducible")
            ctx.compared()
        return
    why = cv.knots_match(lib.curve_state(curve)[0], V, exact)
    ctx.check(why is None, "reduce:knots", f"after degree_decrease({t}): {why}")
    new = cv.state_rc(ctx, curve, "degree_decrease")
    if new is None or why is not None or not judged:
        return
    if target is not None:
        d = cv.function_diff(rc, new, exact)
        ctx.check(d is None, f"reduce:lossy-on-reducible:{kind}", f"reducible curve changed by degree_decrease({t}): {d}")
    elif tol is None:
        ctx.count("reduced_none")
        if new.p >= 1:
            for k in ref.distinct(V):
                a, bb = rc(k), new(k)
                ok = a == bb if exact else lib.pts_close([float(x) for x in bb], a, 1e-9)
                ctx.check(ok, f"reduce:none-interpolation:{kind}", f"tolerance=None: new({k}) = {lib.short(bb)} but old({k}) = {lib.short(a)}")
            if W is None and new.W is None:
                # constrained best approximation (round 8): the residual is L2-orthogonal to every function of the
                # lower-degree space that vanishes at the remaining knots (null space of the evaluation map there)
                q_, m_ = ref.wellformed(V)
                G = [ref.basis(V, q_, z)[:m_] for z in ref.distinct(V)]
                br = ref.merged_breaks(rc.breaks(), new.breaks())
                scale = cv.scale_of(rc)
                worst = None
                for tv in ref.nullspace(G):
                    g = lambda x, tv=tv: sum(c_ * n_ for c_, n_ in zip(tv, ref.basis(V, q_, x)[:m_]) if c_)
                    for c in range(rc.dim):
                        ip = ref.l2_inner(lambda x, c=c: rc(x)[c] - new(x)[c], g, br, rc.p, q_)
                        ctx.count("best_approximation_checks")
                        if (ip != 0 if exact else abs(float(ip)) > 1e-6 * scale * max(1.0, float(br[-1] - br[0]))) and worst is None:
                            worst = (c, float(ip))
                ctx.check(worst is None, f"reduce:none-not-best:{kind}", f"tolerance=None: residual not L2-orthogonal to the admissible variations (coordinate, <r, g>) = {worst}")
    else:
        ctx.count("reduced_lossy")
        deviation_ok(ctx, rc, new, tol, exact, f"reduce:silently-lossy:{kind}", f"degree_decrease({t}, tol={tolname}) succeeded")
