"""C14 - clean() reaches the unique minimal representation without changing the curve."""
from fractions import Fraction as F

from .. import cv, gen, lib, ref
from ..lib import call
from .c05 import deviation_ok

PROP = "C14"
PLAN = {"quick": (640, 500), "thorough": (3000, 3600)}
LARGE = (0.01, 19)  # (share, largest size) of the large class of gen.kv: 17+ control points, degree up to 8
STEP_BUDGET = 20_000_000  # loop line events per outermost call: ten times the default, for the large class
RULE = ("case = (minimal polynomial curve certified by the reference model, a history of 1-4 knot insertions / degree "
        "elevations applied through the library, an order of knot_clean / degree_clean / clean calls); also rational "
        "curves (function and idempotence only) and arbitrary curves. After every call the function is compared exactly, "
        "after clean() the representation must be the minimal one, a second clean() must change nothing. "
        "non-trivial = history non empty and the minimal curve has an interior knot or degree >= 2; distinct = case JSON")
ANCHORS = ["Curve.knot_clean", "Curve.degree_clean", "Curve.clean", "Curve.knot_remove", "Curve.degree_decrease"]
MIN_COUNTERS = {"histories": 50, "clean_calls": 100, "minimal_form_checks": 30}
ASSUMPTIONS = ["tier 2: a needed knot / degree removed within the 1e-9 tolerance is accepted when the deviation respects the C05 bound",
               "rational curves: only function preservation and idempotence are judged"]

ORDERS = [["clean"], ["knot_clean", "degree_clean", "clean"], ["degree_clean", "knot_clean", "clean"], ["clean", "clean"],
          ["knot_clean", "clean"], ["degree_clean", "clean"]]


def gen_case(rng, idx, tier):
    nt = rng.choice(["frac", "frac", "frac", "float"])
    r = rng.random()
    if r < 0.7:
        base = gen.curve(rng, pmax=3, nintmax=3, rational=False, dim=rng.choice([0, 0, 2]))
        m = ref.minimal_form(lib.case_rc(base["U"], base["P"], None))
        scal = not isinstance(base["P"][0], list)
        cur = {"U": m.U, "P": [pt[0] for pt in m.P] if scal else [list(pt) for pt in m.P], "W": None}
        kind = "minimal"
    elif r < 0.85:
        cur = gen.curve(rng, pmax=3, nintmax=2, rational=True, wratio=9)
        kind = "rational"
    else:
        cur = gen.curve(rng, pmax=3, nintmax=3, rational=False)
        kind = "arbitrary"
    a, b = cur["U"][0], cur["U"][-1]
    hist = []
    p0 = ref.degree(cur["U"])
    budget = max(0, min(2, 4 - p0))  # total elevation, keeps exact arithmetic affordable
    for _ in range(rng.randint(0 if kind == "arbitrary" else 1, 4)):
        if rng.random() < 0.6 or budget == 0:
            hist.append(["insert", lib.enc([a + (b - a) * F(rng.randint(1, 29), 30) for _ in range(rng.randint(1, 2))])])
        else:
            t = rng.randint(1, budget)
            budget -= t
            hist.append(["elevate", t])
    d = cv.enc_curve(cur, nt)
    d.update(kind=kind, history=hist, order=rng.choice(ORDERS))
    return d


def run_case(case, ctx):
    U, P, W, nt = cv.dec_curve(case)
    b = cv.build(ctx, case)
    if b is None:
        return
    curve, rc, exact = b
    kind = case["kind"]
    rat = "rat" if W is not None else "poly"
    judged = exact or gen.well_conditioned(U, W)
    ctx.cls(cv.label(U, P, W, nt) + f"|{kind}|h{len(case['history'])}|{'>'.join(case['order'])}")
    ctx.mark_nontrivial(bool(case["history"]) and (len(ref.distinct(U)) > 2 or rc.p >= 2))
    ctx.count("histories")
    # refinement history through the library (each step also judged: the function must not change)
    for op, arg in case["history"]:
        if op == "insert":
            nodes = [lib.num(x, nt) for x in lib.dec(arg)]
            cur_U = [ref.fr(x) for x in lib.curve_state(curve)[0]]
            p = ref.degree(cur_U)
            ok_nodes = []
            for x in nodes:
                if ref.mult(cur_U + [ref.fr(y) for y in ok_nodes], ref.fr(x)) < p + 1:
                    ok_nodes.append(x)
            if not ok_nodes:
                continue
            o = call(curve.knot_insert, ok_nodes)
        else:
            o = call(curve.degree_increase, arg)
        if not ctx.check(o.ok, f"history:raises:{op}:{o.exc_name}", f"refinement {op}({arg}) raised {o.brief()}"):
            return
    refined = cv.state_rc(ctx, curve, "refinement history")
    if refined is None:
        return
    if judged:
        d = cv.function_diff(rc, refined, exact)
        if not ctx.check(d is None, f"history:function:{rat}", f"the refinement history changed the curve: {d}"):
            return
    minimal = None
    if W is None and exact:
        minimal = rc if kind == "minimal" else ref.minimal_form(rc)
    cleaned_once = False
    if len(case["history"]) % 2 == 0:
        cv.bystander(ctx, curve)  # shares the refined curve's KnotVector object from here on
    for name in case["order"]:
        pre = lib.curve_digest(curve)
        o = call(getattr(curve, name))
        ctx.count("clean_calls")
        if not ctx.check(o.ok, f"clean:raises:{name}:{o.exc_name}:{rat}", f"{name}() raised {o.brief()}"):
            cv.unchanged(ctx, curve, pre, f"clean:not-atomic:{name}", f"{name} raised")
            return
        now = cv.state_rc(ctx, curve, name)
        if now is None:
            return
        if exact:
            fl = cv.exact_state(curve)
            ctx.check(fl is None, f"clean:type:{name}", f"float introduced by exact {name} at {fl}")
        if not judged:
            continue
        d = cv.function_diff(rc, now, exact, 1e-8)
        tier2 = False
        if d is not None:
            # tier 2: lossy within the tolerance?
            tier2 = True
            ctx.count("tier2")
            deviation_ok(ctx, rc, now, F(1, 10**9), exact, f"clean:function:{name}:{rat}", f"{name}() changed the curve ({d})")
        else:
            ctx.compared()
        if name == "clean":
            if cleaned_once:
                ctx.check(lib.curve_digest(curve) == pre, f"clean:not-idempotent:{rat}", "a second clean() changed the representation", before=lib.short(pre, 300), after=lib.short(lib.curve_digest(curve), 300))
            cleaned_once = True
            if minimal is not None and not tier2:
                ctx.count("minimal_form_checks")
                if len(now.U) > len(minimal.U) or now.p > minimal.p:
                    ctx.check(False, f"clean:not-minimal:{kind}", f"after clean(): degree {now.p}, knots {lib.short(now.U)} but the minimal form has degree {minimal.p}, knots {lib.short(minimal.U)}")
                elif now.U == minimal.U:
                    ctx.check(now.P == minimal.P, f"clean:ctrlpoints:{kind}", "minimal knot vector reached but control points differ from the minimal form")
                else:
                    # fewer knots than the certified minimum without changing the function is impossible
                    ctx.check(False, f"clean:below-minimum:{kind}", f"clean() reached {lib.short(now.U)} which cannot represent the curve exactly (minimal {lib.short(minimal.U)})")
        elif name in ("knot_clean", "degree_clean") and minimal is not None and not tier2:
            # partial cleaners must already reach their part of the minimum
            if name == "degree_clean":
                ctx.check(now.p == minimal.p, f"clean:degree-not-minimal:{kind}", f"degree_clean() left degree {now.p}, minimal degree is {minimal.p}")
    # idempotence of a final extra clean
    if judged:
        pre = lib.curve_digest(curve)
        o = call(curve.clean)
        if ctx.check(o.ok, f"clean:raises:clean:{o.exc_name}:{rat}", f"clean() raised {o.brief()}"):
            ctx.check(lib.curve_digest(curve) == pre, f"clean:not-idempotent:{rat}", "clean() after clean() changed the representation", before=lib.short(pre, 300), after=lib.short(lib.curve_digest(curve), 300))
