"""C11 - fit_curve is the L2-orthogonal projection (with optional exact interpolation)."""
from fractions import Fraction as F

from .. import cv, gen, lib, ref
from ..lib import call

PROP = "C11"
PLAN = {"quick": (1000, 400), "thorough": (20000, 3600)}
LARGE = (0.02, 19)  # (share, largest size) of the large class of gen.kv: 17+ control points, degree up to 8
STEP_BUDGET = 20_000_000  # loop line events per outermost call: ten times the default, for the large class
RULE = ("case = (source polynomial curve C, target knot vector S on the same interval, optional interpolation nodes); "
        "classes: C in S (S is a refinement / elevation of C's space built by the reference model), related pairs (same degree, size and distinct knots with permuted multiplicities; same knots at degree p+-1; one knot moved) and generic pairs with "
        "degrees 0..3, non uniform spans, different interval lengths, scalar / vector points, node sets of every admissible "
        "size; oracles exact: residual orthogonal to every basis function of S (or to the null space of the evaluation "
        "map when nodes are given), interpolation at the nodes, D == C and error == 0 when C in S, error >= 0 and "
        "error / max_coord int r^2 in {1, 1/2}. non-trivial = S or C has an interior knot; distinct = case JSON")
ANCHORS = ["LeastSquare.func2func", "LeastSquare.spline2spline", "Linalg.invert", "Linalg.invert_integer_matrix", "Curve.fit_curve"]
MIN_COUNTERS = {"fits": 100, "orthogonality_checks": 100, "in_space": 20, "with_nodes": 20}
ASSUMPTIONS = ["float class: judged to 1e-8 relative (1e-6 with interpolation nodes) on well-conditioned pairs"]


# LeastSquare.func2func turns Python int knots into Fractions element by element: knot vectors written with ints for the
# integral values (alone or mixed with Fractions) are an exact class of this operation
MIXED_INTS = True


def gen_case(rng, idx, tier):
    nt = rng.choice(["frac", "frac", "frac", "float"])
    src = gen.curve(rng, pmax=3, nintmax=2, rational=False, dim=rng.choice([0, 0, 2]))
    U = src["U"]
    a, b = U[0], U[-1]
    r = rng.random()
    if r < 0.3:
        # C in S
        rc = lib.case_rc(U, src["P"], None)
        t = rng.choice([0, 0, 1])
        V = sorted(U + ref.distinct(U) * t)
        for _ in range(rng.randint(0, 2)):
            k = a + (b - a) * F(rng.randint(1, 29), 30)
            if ref.mult(V, k) < ref.degree(V) + 1:
                V = sorted(V + [k])
        inside = True
    elif r < 0.45:
        # related pair (round 8): the target shares degree / size / distinct knots with the source's space without being
        # that space - multiplicities permuted among the interior knots, the same knots at another degree, one knot moved
        src = gen.curve(rng, p=rng.randint(1, 3), nint=rng.randint(2, 3), rational=False, dim=rng.choice([0, 0, 2]))
        U = src["U"]
        a, b = U[0], U[-1]
        p = ref.degree(U)
        ks = [k for k in ref.distinct(U) if a < k < b]
        ms = [ref.mult(U, k) for k in ks]
        how = rng.choice(["perm", "perm", "degree", "move"])
        if how == "perm":
            if len(set(ms)) == 1:
                i = rng.randrange(len(ms))
                ms[i] = ms[i] % (p + 1) + 1  # make them differ, then permute
                pts = gen.points(rng, p + 1 + sum(ms), dim=0)
                src = dict(src, U=gen.kv_from(a, b, p, ks, ms), P=pts, W=None)
                U = src["U"]
            ms2 = ms[:]
            while ms2 == ms:
                rng.shuffle(ms2)
            V = gen.kv_from(a, b, p, ks, ms2)
        elif how == "degree":
            q_ = p + rng.choice([-1, 1])
            V = gen.kv_from(a, b, q_, ks, [min(m_, q_ + 1) for m_ in ms])
        else:
            i = rng.randrange(len(ks))
            lo = ks[i - 1] if i else a
            hi = ks[i + 1] if i + 1 < len(ks) else b
            ks2 = ks[:]
            ks2[i] = lo + (hi - lo) * F(rng.randint(1, 6), 7)
            V = gen.kv_from(a, b, p, ks2, ms)
        inside = False
    else:
        V = gen.kv(rng, pmax=3, nintmax=3, itv=(a, b))
        inside = False
    q, m = ref.wellformed(V)
    def nodeset():
        if rng.random() < 0.45:
            return None
        cnt = rng.randint(1, m)
        pool = sorted(set(ref.distinct(V)) | {a + (b - a) * F(i, 17) for i in range(1, 17)})
        picked = sorted(rng.sample(pool, min(cnt, len(pool))))
        if rng.random() < 0.4:
            rng.shuffle(picked)  # interpolation nodes are a set: any order
        return picked

    # the same (source, target) pair is fitted 1-3 times with different node sets in one process: an answer must not
    # depend on what was asked before
    sets = [nodeset() for _ in range(rng.choice([1, 2, 2, 3]))]
    d = cv.enc_curve(src, nt)
    d.update(V=lib.enc(V), nodesets=lib.enc(sets), inside=inside)
    return d


def run_case(case, ctx):
    U, P, W, nt = cv.dec_curve(case)
    b = cv.build(ctx, case)
    if b is None:
        return
    C, rc, exact = b
    sets = lib.dec(case["nodesets"]) if "nodesets" in case else [lib.dec(case["nodes"])]
    for k, nodes in enumerate(sets):
        one_fit(case, ctx, C, rc, exact, nodes, k)


def one_fit(case, ctx, C, rc, exact, nodes, round_):
    from compmec.nurbs import Curve

    U, P, W, nt = cv.dec_curve(case)
    V = lib.dec(case["V"])
    Vn = lib.nums(V, nt)
    Vq = [ref.fr(x) for x in Vn]
    q, m = ref.wellformed(Vq)
    uniform = len(set(y - x for x, y in zip(ref.merged_breaks(rc.breaks(), ref.distinct(Vq)), ref.merged_breaks(rc.breaks(), ref.distinct(Vq))[1:]))) == 1
    maxmV = max([mm for _, mm in ref.runs(Vq)[1:-1]] or [0])
    maxmU = max([mm for _, mm in ref.runs(rc.U)[1:-1]] or [0])
    disc = (maxmV == q + 1) or (maxmU == rc.p + 1) or ((q == 0 or rc.p == 0) and (len(ref.distinct(Vq)) > 2 or len(rc.breaks()) > 2))
    if round_ == 0:
        ctx.cls(f"fits{len(lib.dec(case['nodesets'])) if 'nodesets' in case else 1}")
    ctx.cls(f"pC{rc.p}|pS{q}|{'in' if case['inside'] else 'generic'}|{'nodes' if nodes else 'free'}|{'uniform' if uniform else 'nonuniform'}|{'disc' if disc else 'cont'}|{nt}|dim{rc.dim}")
    ctx.mark_nontrivial(len(ref.distinct(Vq)) > 2 or len(rc.breaks()) > 2)
    judged = exact or (gen.well_conditioned(U) and gen.well_conditioned(V))
    nodes_n = None if nodes is None else lib.nums(nodes, nt)
    nodes_q = None if nodes is None else [ref.fr(x) for x in nodes_n]
    if nodes_q is not None:
        G = [ref.basis(Vq, q, z)[:m] for z in nodes_q]
        if ref.rank(G) < len(nodes_q):
            ctx.count("skipped_not_unisolvent")
            return
        if not exact:
            import numpy as np

            Gf = np.array([[float(v) for v in row] for row in G], dtype="float64")
            if not float(np.linalg.cond(Gf @ Gf.T)) < 1e8:
                judged = False  # unisolvent in exact arithmetic but numerically ill posed: float verdict withheld
                ctx.count("float_ill_conditioned_unjudged")
    o = call(Curve, Vn)
    if not ctx.check(o.ok, "construct:target", f"target knot vector rejected {o.brief()}"):
        return
    S = o.value
    pre = lib.curve_digest(C)
    o = call(S.fit_curve, C, nodes_n) if nodes_n is not None else call(S.fit_curve, C)
    cv.unchanged(ctx, C, pre, "fit:source-modified", "fit_curve")
    ctx.count("fits")
    feat = f"{'nodes' if nodes else 'free'}:{'uniform' if uniform else 'nonuniform'}:{'disc' if disc else 'cont'}"
    if not ctx.check(o.ok, f"fit:raises:{o.exc_name}:{feat}", f"fit_curve raised {o.brief()}"):
        return
    err = o.value
    D = cv.state_rc(ctx, S, "fit_curve")
    if D is None:
        return
    why = cv.knots_match(lib.curve_state(S)[0], Vq, exact)
    ctx.check(why is None, "fit:knots", f"fit_curve changed the target knot vector: {why}")
    if exact:
        fl = cv.exact_state(S) or lib.find_float(err, "error")
        ctx.check(fl is None, "fit:type", f"float introduced by exact fit_curve at {fl}")
    if not judged:
        ctx.count("unjudged")
        return
    br = ref.merged_breaks(rc.breaks(), D.breaks())
    dmax = max(rc.p, q)
    inside = ref.represent_curve(rc, Vq) is not None
    # float class: the bordered (Lagrange) system with many nodes is moderately ill conditioned
    ftol = 1e-8 if nodes_q is None else 1e-6
    scale = cv.scale_of(rc)
    if inside:
        ctx.count("in_space")
        d = cv.function_diff(rc, D, exact, ftol)
        ctx.check(d is None, f"fit:in-space:{feat}", f"C lies in S but fit_curve returned another curve: {d}")
        ctx.check(err == 0 if exact else abs(float(err)) <= 1e-9 * scale * scale, f"fit:error-nonzero-in-space:{feat}", f"C lies in S but error = {err}")
    # interpolation
    if nodes_q is not None:
        ctx.count("with_nodes")
        for z in nodes_q:
            a, bb = rc(z), D(z)
            ok = a == bb if exact else all(abs(float(x) - float(y)) <= ftol * scale for x, y in zip(a, bb))
            ctx.check(ok, f"fit:interpolation:{feat}", f"D({z}) = {lib.short(bb)} but C({z}) = {lib.short(a)}")
    # orthogonality
    if nodes_q is None:
        tests = [[F(int(i == k)) for k in range(m)] for i in range(m)]
    else:
        tests = ref.nullspace(G)
    worst = None
    for c in range(rc.dim):
        r = lambda x, c=c: rc(x)[c] - D(x)[c]
        for tv in tests:
            g = lambda x, tv=tv: sum(t * n for t, n in zip(tv, ref.basis(Vq, q, x)[:m]) if t)
            ip = ref.l2_inner(r, g, br, dmax, q)
            ctx.count("orthogonality_checks")
            if (ip != 0 if exact else abs(float(ip)) > ftol * scale) and worst is None:
                worst = (c, tv, ip)
    ctx.check(worst is None, f"fit:not-orthogonal:{feat}", f"residual not L2-orthogonal to S: coordinate {worst[0] if worst else ''}, <r, g> = {float(worst[2]) if worst else ''}")
    # error value
    dev = max(ref.l2_inner(lambda x, c=c: rc(x)[c] - D(x)[c], lambda x, c=c: rc(x)[c] - D(x)[c], br, dmax, dmax) for c in range(rc.dim))
    try:
        e = ref.fr(err)
    except (TypeError, ValueError):
        ctx.check(False, "fit:error-type", f"returned error is {type(err).__name__}: {lib.short(err)}")
        return
    ctx.check(e >= (0 if exact else -1e-12), f"fit:error-negative:{feat}", f"error = {float(e)} < 0")
    if dev == 0 or (not exact and float(dev) <= 1e-10 * scale * scale):
        ctx.check(e == 0 if exact else abs(float(e)) <= 1e-9 * scale * scale, f"fit:error-nonzero:{feat}", f"residual is zero but error = {float(e)}")
    else:
        ratio = e / dev
        good = ratio in (1, F(1, 2)) if exact else min(abs(float(ratio) - 1), abs(float(ratio) - 0.5)) <= 1e-5
        ctx.check(good, f"fit:error-value:{feat}", f"error / max_coord int r^2 = {float(ratio)!r} (expected 1 or 1/2); error={float(e)!r} int r^2={float(dev)!r}")
