"""C04 - knot insertion never changes the curve and yields exactly the requested knots."""
from fractions import Fraction as F

from .. import cv, gen, lib, ref
from ..lib import call

PROP = "C04"
PLAN = {"quick": (2400, 200), "thorough": (40000, 3000)}
LARGE = (0.04, 64)  # (share, largest size) of the large class of gen.kv: 17+ control points, degree up to 8
RULE = ("case = (curve, multiset of nodes, class); classes: single new node, node equal to an existing knot of "
        "multiplicity 1..p, repeated nodes, several unsorted nodes, node 0 on intervals where 0 is interior, and invalid "
        "requests (multiplicity above p+1 incl. end knots, outside, non-number); polynomial and rational, scalar and "
        "vector points, Fraction / float. non-trivial = >=1 node really inserted into a curve with interior knots or "
        "weights; distinct = case JSON")
ANCHORS = ["Operations.one_knot_insert_once", "Operations.one_knot_insert", "Operations.knot_insert", "Curve.knot_insert", "BaseCurve.apply"]
MIN_COUNTERS = {"valid_insertions": 30, "invalid_requests": 10}
ASSUMPTIONS = ["float class: same function judged to relative 1e-9 on well-conditioned curves"]


def gen_case(rng, idx, tier):
    want_zero = rng.random() < 0.25
    deep = tier == "thorough" and rng.random() < 0.25
    cur = gen.curve(rng, itv=(F(-1), F(1)) if want_zero else None, want_zero=False if want_zero else None, pmax=6 if deep else 4, nintmax=6 if deep else 4, magnitudes=True)
    U = cur["U"]
    p = ref.degree(U)
    ks = ref.distinct(U)
    nt = cv.pick_numtype(rng, U)
    a, b = U[0], U[-1]

    def newval():
        for _ in range(20):
            v = a + (b - a) * F(rng.randint(1, 59), 60)
            if v not in U:
                return v
        return a + (b - a) * F(1, 61)

    r = rng.random()
    cls = None
    if want_zero and 0 not in U:
        nodes = [F(0)] * rng.randint(1, p + 1) + ([newval()] if rng.random() < 0.4 else [])
        cls = "zero"
    elif r < 0.2:
        nodes, cls = [newval()], "single"
    elif r < 0.4 and len(ks) > 2:
        k = rng.choice(ks[1:-1])
        room = p + 1 - ref.mult(U, k)
        if room == 0:
            nodes, cls = [k], "over"
        else:
            nodes, cls = [k] * rng.randint(1, room), "existing"
    elif r < 0.55:
        v = newval()
        nodes, cls = [v] * rng.randint(2, p + 1) if p >= 1 else [v], "repeated"
    elif r < 0.75:
        # 2-4 nodes, or (one time in five) 13-30 nodes in one call
        nodes = [newval() for _ in range(rng.randint(2, 4) if rng.random() < 0.8 else rng.randint(13, 30))]
        nodes = [v for v in nodes if nodes.count(v) <= p + 1]
        if len(ks) > 2 and rng.random() < 0.5:
            k = rng.choice(ks[1:-1])
            if ref.mult(U, k) + nodes.count(k) < p + 1:
                nodes.append(k)
        rng.shuffle(nodes)
        cls = "several"
    else:
        how = rng.choice(["over", "over-new", "end", "bothends", "outside", "junk", "mixed-outside"])
        cls = how
        if how == "over" and len(ks) > 2:
            k = rng.choice(ks[1:-1])
            nodes = [k] * (p + 2 - ref.mult(U, k))
        elif how in ("over", "over-new"):
            nodes = [newval()] * (p + 2)
            cls = "over-new"
        elif how == "end":
            nodes = [rng.choice([a, b])]
        elif how == "bothends":
            nodes = [a, b]
        elif how == "outside":
            nodes = [rng.choice([a - F(1, 10), b + F(1, 10), b + 5])]
        elif how == "mixed-outside":
            nodes = [newval(), b + F(1, 3)]
        else:
            nodes = ["junk:" + rng.choice(["str", "none"])]
    # keep multiplicities legal in the valid classes
    d = cv.enc_curve(cur, nt)
    d["nodes"] = [n if isinstance(n, str) and n.startswith("junk") else lib.enc(n) for n in nodes]
    d["cls"] = cls
    # half of the exact cases are preceded by the same request on a twin curve holding the same values in another
    # number class: the result must not depend on what other curves did earlier in the process
    d["prime"] = rng.choice([None, "float", "int"]) if nt == "frac" else None
    d["argform"] = rng.choice(["list", "list", "tuple", "array", "generator"])
    return d


def run_case(case, ctx):
    U, P, W, nt = cv.dec_curve(case)
    p = ref.degree(U)
    b = cv.build(ctx, case)
    if b is None:
        return
    curve, rc, exact = b
    judged = exact or gen.well_conditioned(U, W)
    ctx.cls(cv.label(U, P, W, nt) + "|" + case["cls"])
    junk = any(isinstance(n, str) and n.startswith("junk") for n in case["nodes"])
    if junk:
        nodes_n = [{"junk:str": "a", "junk:none": None}[n] for n in case["nodes"]]
        nodes_q = None
    else:
        nodes_n = [lib.num(F(n), nt) for n in case["nodes"]]
        nodes_q = [ref.fr(x) for x in nodes_n]
    if case.get("prime") and not junk:
        tw = case["prime"]
        # the twin must hold exactly the same values (a float twin of 1/3 would put knots one ulp apart, which is
        # outside the separation bound of DESIGN 4)
        same_values = all(F(float(k)) == k for k in list(U) + nodes_q) if tw == "float" else all(k.denominator == 1 for k in U)
        if same_values:
            from .. import attach

            attach.S.enabled = False  # the twin's own outcome is irrelevant and not judged
            try:
                o = call(lib.mk_curve, U, P, W, tw)
                if o.ok:
                    call(o.value.knot_insert, list(nodes_n))  # same node objects, other knot class
                    ctx.count("primed_by_twin")
            finally:
                attach.S.enabled = True
    pre = lib.curve_digest(curve)
    Uq = rc.U
    valid = False
    if nodes_q is not None:
        exp = sorted(Uq + nodes_q)
        wf = ref.wellformed(exp)
        valid = wf is not None and wf[0] == p and all(Uq[0] < x < Uq[-1] for x in nodes_q)
    o = call(curve.knot_insert, lib.container(nodes_n, case.get("argform", "list")) if not junk else nodes_n)
    if not valid:
        ctx.count("invalid_requests")
        if o.ok:
            ctx.check(False, f"insert:accepts-invalid:{case['cls']}", f"knot_insert({case['nodes']}) on {lib.short(U)} was accepted")
            return
        if not junk:
            ctx.check(isinstance(o.exc, ValueError), f"insert:wrong-exception:{o.exc_name}:{case['cls']}", f"invalid knot_insert raised {o.brief()} (ValueError required)")
        cv.unchanged(ctx, curve, pre, f"insert:not-atomic:{case['cls']}", f"knot_insert({case['nodes']}) raised {o.exc_name}")
        return
    ctx.count("valid_insertions")
    zero = "zero" if any(x == 0 for x in nodes_q) else "nonzero"
    kind = "rat" if W is not None else "poly"
    if not ctx.check(o.ok, f"insert:raises:{o.exc_name}:{zero}", f"valid knot_insert({case['nodes']}) raised {o.brief()}", cls=case["cls"]):
        cv.unchanged(ctx, curve, pre, "insert:not-atomic:valid", "valid knot_insert raised")
        return
    ctx.mark_nontrivial(len(ref.distinct(U)) > 2 or W is not None)
    Un, Pn, Wn = lib.curve_state(curve)
    why = cv.knots_match(Un, exp, exact)
    ctx.check(why is None, "insert:knots", f"after knot_insert({case['nodes']}): {why}")
    ctx.check((Wn is None) == (W is None), "insert:weights-presence", "weights appeared / disappeared")
    new = cv.state_rc(ctx, curve, "knot_insert")
    if new is None:
        return
    if exact:
        fl = cv.exact_state(curve)
        ctx.check(fl is None, f"insert:type:{kind}", f"float introduced by exact knot insertion at {fl}")
    if judged:
        d = cv.function_diff(rc, new, exact)
        ctx.check(d is None, f"insert:function:{kind}:{case['cls']}", f"knot_insert({case['nodes']}) changed the curve: {d}")
        # independent insertion gives the same representation
        want = ref.insert_many(rc, nodes_q)
        if exact:
            ctx.check(new.P == want.P and new.W == want.W, f"insert:ctrlpoints:{kind}", "control points / weights differ from Boehm's algorithm")
        cv.lib_eval_matches(ctx, curve, rc, exact, "insert")
    else:
        ctx.count("unjudged_float")
