"""C19 - Projection returns nearest-point parameters (and terminates)."""
import math
from fractions import Fraction as F

import numpy as np

from .. import cv, gen, lib, ref
from ..lib import call

PROP = "C19"
PLAN = {"quick": (3000, 300), "thorough": (50000, 3000)}
STEP_BUDGET = 4_000_000  # line events inside while-loops per call; 100 capped Newton iterations x 5 starts x pieces on a rational cubic stay below 1e6
RULE = ("case = (curve, point); polylines (degree 1, 1-12 segments, 2-D / 3-D, non uniform knots) with points off the "
        "curve, points sampled on the curve, points equidistant from two segments; polylines with a zero-length segment "
        "(own class); Bezier / spline curves of degree 2-3 and rational arcs. Oracle: closed-form point-polyline "
        "distance, equal distances, sortedness, range, stationarity of interior non-knot parameters, logical step budget "
        "for termination. non-trivial = >=2 segments or degree >=2; distinct = case JSON")
ANCHORS = ["Projection.point_on_curve", "Projection.point_on_bezier", "Projection.__newton_point_on_curve"]
MIN_COUNTERS = {"projections": 500, "polyline_minimum_checks": 200, "stationarity_checks": 100, "on_curve": 50}
ASSUMPTIONS = ["global minimality is judged for polylines only (degree >= 2: reported as a rate, the statement does not guarantee it)",
               "termination is restated as: every call returns within 4e6 loop line events (about 10x the largest count seen)"]


def gen_case(rng, idx, tier):
    r = rng.random()
    dim = rng.choice([2, 2, 3])
    if r < 0.6:
        nseg = rng.randint(1, 12) if rng.random() < 0.92 else rng.randint(17, 40)  # beyond any piece-count threshold
        U = gen.kv(rng, p=1, nint=nseg - 1, maxmult=1, itv=rng.choice([(F(0), F(1)), (F(-1), F(1)), (F(0), F(nseg))]))
        nseg = len(U) - 3
        P = [[F(rng.randint(-20, 20), rng.choice([1, 2])) for _ in range(dim)] for _ in range(nseg + 1)]
        # avoid zero-length segments here
        for i in range(1, len(P)):
            if P[i] == P[i - 1]:
                P[i][0] += 1
        kind = "polyline"
        W = None
        if rng.random() < 0.25:
            # rational polyline: the same geometry, non linear parametrisation inside every segment
            W = gen.weights(rng, len(P), 9)
            kind = "rational-polyline"
        if W is None and rng.random() < 0.3:
            # slow parametrisation: long knot spans and / or small geometry (|C'| down to ~1e-5)
            ks = rng.choice([F(100), F(1000), F(1)])
            gs = rng.choice([F(1), F(1, 1000), F(1, 100)])
            if ks == 1 and gs == 1:
                ks = F(1000)
            U = [k * ks for k in U]
            P = [[c * gs for c in pt] for pt in P]
            kind = "polyline-slow"
            dim = len(P[0])
            far = [F(rng.randint(-25, 25), rng.choice([1, 2, 3])) * gs for _ in range(dim)]
    elif r < 0.68:
        nseg = rng.randint(2, 6)
        U = gen.kv(rng, p=1, nint=nseg - 1, maxmult=1)
        nseg = len(U) - 3
        P = [[F(rng.randint(-9, 9)) for _ in range(dim)] for _ in range(nseg + 1)]
        j = rng.randrange(1, len(P))
        P[j] = list(P[j - 1])
        kind = "zero-segment"
        W = None
    else:
        cur = gen.curve(rng, p=rng.choice([2, 3]), nintmax=2, maxmult=1, dim=dim, rational=rng.random() < 0.3, wratio=4)
        U, P, W = cur["U"], cur["P"], cur["W"]
        kind = "rational" if W is not None else "smooth"
    mode = rng.choice(["off", "off", "on", "far", "vertex"])
    if kind == "polyline" and dim == 2 and len(P) >= 3 and rng.random() < 0.25:
        mode = "near-tie"
    pt = None
    if mode == "on":
        a, b = U[0], U[-1]
        pt = ["on", lib.enc(a + (b - a) * F(rng.randint(0, 40), 40))]
    elif mode == "vertex":
        pt = ["vertex", rng.randrange(len(P))]
    elif mode == "near-tie":
        # a far point almost on the perpendicular bisector of two vertices: two local candidates whose distances differ
        # by 2e-6..1e-3 at a distance of 1e2..1e3 ("all at the same distance within 1e-6" is an absolute bound)
        i, j = rng.sample(range(len(P)), 2)
        vi, vj = P[i], P[j]
        mid = [(a + b) / 2 for a, b in zip(vi, vj)]
        e = [b - a for a, b in zip(vi, vj)]
        nrm = [-e[1], e[0]]
        t = rng.choice([-1, 1]) * F(rng.choice([100, 300, 1000])) / max(1, int(float(e[0] * e[0] + e[1] * e[1]) ** 0.5))
        delta = F(rng.choice([1, 3, 10, 50]), 10**4)
        pt = ["pt", lib.enc([mid[0] + t * nrm[0] + delta * e[0], mid[1] + t * nrm[1] + delta * e[1]])]
    elif mode == "far":
        pt = ["pt", lib.enc([F(rng.randint(-200, 200)) for _ in range(dim)])]
    else:
        pt = ["pt", lib.enc([F(rng.randint(-25, 25), rng.choice([1, 2, 3])) for _ in range(dim)])]
    if kind == "polyline-slow" and pt[0] == "pt":
        pt = ["pt", lib.enc(far)]
    return {"U": lib.enc(U), "P": lib.enc(P), "W": lib.enc(W), "kind": kind, "point": pt, "numtype": rng.choice(["float", "float", "float", "frac"])}


def run_case(case, ctx):
    from compmec.nurbs import Curve, Projection

    U, P, W = lib.dec(case["U"]), lib.dec(case["P"]), lib.dec(case["W"])
    kind = case["kind"]
    nt = case["numtype"]
    rc = lib.case_rc(U, P, W, "float")
    p = rc.p
    knots = lib.nums(U, nt)
    pts = np.array([[float(c) for c in pt] for pt in P], dtype="float64")
    curve = Curve(knots, pts, None if W is None else [float(w) for w in W])
    mode, arg = case["point"]
    if mode == "on":
        point = tuple(float(c) for c in rc(F(arg)))
    elif mode == "vertex":
        point = tuple(float(c) for c in P[arg])
    else:
        point = tuple(float(F(c)) for c in arg)
    arg_point = point
    if all(float(c).is_integer() for c in point) and len(U) % 2 == 0:
        # the same point written with Python ints / as an integer numpy array
        arg_point = tuple(int(c) for c in point) if len(U) % 4 == 0 else np.array([int(c) for c in point], dtype="int64")
        ctx.count("integer_typed_points")
    ctx.cls(f"{kind}|{mode}|dim{rc.dim}|seg{min(len(ref.distinct(U)) - 1, 6)}|{nt}")
    ctx.mark_nontrivial(len(ref.distinct(U)) > 2 or p >= 2)
    ctx.count("projections")
    pre = lib.curve_digest(curve)
    o = call(Projection.point_on_curve, arg_point, curve)
    cv.unchanged(ctx, curve, pre, "proj:modified", "Projection.point_on_curve")
    if not o.ok:
        if isinstance(o.exc, lib.StepBudgetExceeded):
            ctx.check(False, f"proj:no-termination:{kind}", f"point_on_curve did not return within the step budget ({o.exc})", point=point)
        else:
            ctx.check(False, f"proj:raises:{o.exc_name}:{kind}", f"point_on_curve raised {o.brief()}", point=point)
        return
    res = o.value
    umin, umax = float(rc.U[0]), float(rc.U[-1])
    okshape = isinstance(res, tuple) and len(res) >= 1
    if not ctx.check(okshape, f"proj:shape:{kind}", f"point_on_curve returned {lib.short(res)}"):
        return
    try:
        ts = [float(t) for t in res]
    except (TypeError, ValueError):
        ctx.check(False, f"proj:shape:{kind}", f"non numeric parameters {lib.short(res)}")
        return
    if not ctx.check(all(not math.isnan(t) for t in ts), f"proj:nan:{kind}", f"NaN parameter returned: {ts}"):
        return
    ctx.check(all(a <= b for a, b in zip(ts, ts[1:])), f"proj:unsorted:{kind}", f"parameters not sorted: {ts}")
    ctx.check(all(umin - 1e-12 <= t <= umax + 1e-12 for t in ts), f"proj:outside:{kind}", f"parameters outside [{umin},{umax}]: {ts}")
    ts = [min(max(t, umin), umax) for t in ts]

    def at(t):
        return [float(c) for c in rc(F(t))]

    dists = [math.dist(at(t), point) for t in ts]
    sc = max([1.0] + [abs(c) for c in point] + [abs(float(c)) for pt in rc.P for c in pt])
    ctx.check(max(dists) - min(dists) <= 1e-6 + 1e-10 * sc, f"proj:unequal-distances:{kind}", f"returned parameters are not at the same distance: {dists}")
    dret = min(dists)
    if kind == "rational-polyline":
        # outside the guaranteed class (the problem is not piecewise linear in u): minimality is reported only
        best = min(ref.seg_point_dist([float(c) for c in a], [float(c) for c in b], point)[0] for a, b in zip(rc.P, rc.P[1:]))
        ctx.count("rational_polyline_min_hit" if abs(dret - best) <= 1e-6 * (1 + best) else "rational_polyline_min_missed")
    elif p == 1 and kind != "zero-segment":
        kindp = "polyline-slow" if kind == "polyline-slow" else "polyline"
        ctx.count("polyline_minimum_checks")
        best = min(ref.seg_point_dist([float(c) for c in a], [float(c) for c in b], point)[0] for a, b in zip(rc.P, rc.P[1:]))
        ctx.check(abs(dret - best) <= 1e-7 * (1 + best), f"proj:not-nearest:{kindp}:{mode}", f"returned distance {dret!r} but the polyline is at distance {best!r}", point=point, params=ts)
        if mode in ("on", "vertex"):
            ctx.count("on_curve")
            ctx.check(dret <= 1e-7 * sc, f"proj:on-curve-missed:{mode}", f"a point of the curve is projected at distance {dret!r}", point=point)
    elif p == 1:
        best = min(ref.seg_point_dist([float(c) for c in a], [float(c) for c in b], point)[0] for a, b in zip(rc.P, rc.P[1:]))
        ctx.check(abs(dret - best) <= 1e-7 * (1 + best), "proj:not-nearest:zero-segment", f"returned distance {dret!r} but the polyline is at distance {best!r}", point=point)
    else:
        # dense scan, reported only
        br = rc.breaks()
        best = min(math.dist(at(min(max(float(x0) + (float(x1) - float(x0)) * k / 64, umin), umax)), point) for x0, x1 in zip(br, br[1:]) for k in range(65))
        ctx.count("smooth_global_min_hit" if dret <= best + 1e-6 * sc else "smooth_global_min_missed")
        if mode == "on":
            # special case of global minimality, which the statement guarantees for polylines only: reported
            ctx.count("smooth_on_curve_hit" if dret <= 1e-6 * sc else "smooth_on_curve_missed")
    # stationarity of interior non-knot parameters
    kn = [float(k) for k in rc.breaks()]
    for t in ts:
        if any(abs(t - k) <= 1e-9 * max(1.0, umax - umin) for k in kn):
            continue
        ctx.count("stationarity_checks")

        def fprime(x):
            d = [float(c) for c in rc.deriv(F(x))]
            return sum(a * (b - c) for a, b, c in zip(d, at(x), point)), math.sqrt(sum(a * a for a in d))

        val, nd = fprime(t)
        small = abs(val) <= 1e-5 * max(1.0, nd * max(1.0, math.dist(at(t), point)))
        if not small:
            # the iteration stops on a parameter step < 1e-6: accept when a sign change of <C', C-P> lies within
            # 1e-4 of the interval length (inside the same span)
            lo = max(k for k in kn if k < t)
            hi = min(k for k in kn if k > t)
            dl = 1e-4 * (umax - umin)
            a_, b_ = max(lo + 1e-12, t - dl), min(hi - 1e-12, t + dl)
            small = fprime(a_)[0] * fprime(b_)[0] <= 0
        ctx.check(small, f"proj:not-stationary:{kind}", f"returned interior parameter {t} is not (within 1e-4 of) a stationary point of the distance: <C', C-P> = {val!r}", point=point)
