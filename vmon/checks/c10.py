"""C10 - quadrature rules are exact to their order; spline integrals are exact."""
import json
import math
import os
import subprocess
import sys
from fractions import Fraction as F

from .. import cv, gen, lib, ref
from ..lib import call

PROP = "C10"
PLAN = {"quick": (1900, 400), "thorough": (80000, 3600)}
RULE = ("cases: rule = (family, n) for closed/open Newton-Cotes, Chebyshev, Gauss-Legendre, n<=16 (exact families to 24 in "
        "thorough): node order, range, count, weight sum and every moment d<n (d<2n Gauss); history = a random interleaving "
        "of 12-40 calls to NodeSample / IntegratorArray / Integrate / LeastSquare whose every returned rule must be "
        "bit-identical to the value computed with cold memo tables (module reloaded; spot-checked against fresh "
        "interpreters); scalar = Integrate.scalar of a polynomial spline vs sum P_i (u_(i+p+1)-u_i)/(p+1) for every "
        "method; function = Integrate.function of per-span polynomials; lenght = polylines. "
        "non-trivial = n>=4 rule, any history, curve with an interior knot; distinct = case JSON")
ANCHORS = ["IntegratorArray.closed_newton_cotes", "IntegratorArray.open_newton_cotes", "IntegratorArray.chebyshev",
           "IntegratorArray.gauss_legendre", "NodeSample.chebyshev", "NodeSample.gauss_legendre", "IntegratorArray.bezier_integrator_array",
           "Integrate.scalar", "Integrate.function", "Integrate.lenght"]
MIN_COUNTERS = {"rules_checked": 40, "history_calls": 300, "scalar_integrals": 50, "function_integrals": 20, "lenghts": 10}
ASSUMPTIONS = ["float families (Chebyshev, Gauss-Legendre) judged to 1e-9 and only up to n=16",
               "closed rules are given nnodes = max(2, p+1)"]
ENUMERATED = {"quick": (64, "every (family, n) with n <= 16 for the four rule families: all moments d < n (d < 2n Gauss)", 680),
              "thorough": (80, "every (family, n): n <= 24 for the two Newton-Cotes families, n <= 16 for Chebyshev and Gauss-Legendre", 1000)}

FAMILIES = ["closed", "open", "cheby", "gauss"]
METHOD = {"closed": "closed-newton-cotes", "open": "open-newton-cotes", "cheby": "chebyshev", "gauss": "gauss-legendre"}


def fam_funcs():
    from compmec.nurbs import heavy

    return {
        "closed": (heavy.NodeSample.closed_linspace, heavy.IntegratorArray.closed_newton_cotes),
        "open": (heavy.NodeSample.open_linspace, heavy.IntegratorArray.open_newton_cotes),
        "cheby": (heavy.NodeSample.chebyshev, heavy.IntegratorArray.chebyshev),
        "gauss": (heavy.NodeSample.gauss_legendre, heavy.IntegratorArray.gauss_legendre),
    }


NMAX = 16
# spans [a, b] of the decimal grid k/100 on which the textbook affine map a + (b - a) * t leaves the span at t = 1 in
# binary64 (a rounding tie, e.g. 0.3 + (0.9 - 0.3) > 0.9): 144 of the 5050 pairs
OVERSHOOT = [(i, j) for i in range(0, 101) for j in range(i + 1, 101) if i / 100 + (j / 100 - i / 100) > j / 100]


def decimal_inner(rng, count):
    """sorted interior knots k/100; every second time one adjacent pair is an OVERSHOOT span"""
    if rng.random() < 0.5 and count >= 2:
        i, j = rng.choice([(a, b) for a, b in OVERSHOOT if a >= 1 and b <= 99])
        rest = [k for k in range(1, 100) if k < i or k > j]
        return sorted([i, j] + rng.sample(rest, min(count - 2, len(rest))))
    return sorted(rng.sample(range(1, 100), count))


def gen_case(rng, idx, tier):
    r = idx % 10
    if r < 2:
        fam = FAMILIES[(idx // 10) % 4]
        top = 24 if (tier == "thorough" and fam in ("closed", "open")) else NMAX
        n = 1 + (idx // 40) % top
        if fam == "closed" and n < 2:
            n = 2
        return {"kind": "rule", "family": fam, "n": n}
    if r < 4:
        calls = []
        for _ in range(rng.randint(12, 40)):
            c = rng.random()
            if c < 0.55:
                fam = rng.choice(FAMILIES)
                n = rng.randint(2 if fam == "closed" else 1, NMAX)
                calls.append([rng.choice(["nodes", "weights"]), fam, n])
            elif c < 0.7:
                # the samplers also take the number class: a request for another class must not leak into later ones
                fam = rng.choice(["closed", "open"])
                calls.append(["nodes-cls", fam, rng.randint(2 if fam == "closed" else 1, NMAX), rng.choice(["float", "Fraction", "npfloat"])])
            elif c < 0.85:
                calls.append(["integrate", rng.choice(FAMILIES), rng.randint(0, 3), rng.randint(2, 7)])
            else:
                calls.append(["lsq", rng.randint(0, 3), rng.randint(0, 3), rng.choice(["frac", "float"])])
        return {"kind": "history", "calls": calls}
    if r < 8:
        cur = gen.curve(rng, rational=False, nintmax=4, dim=rng.choice([0, 0, 0, 2]), magnitudes=True)
        nt = rng.choice(["frac", "frac", "float", "int"]) if all(F(k).denominator == 1 for k in cur["U"]) else rng.choice(["frac", "frac", "float"])
        d = cv.enc_curve(cur, nt)
        d.update(kind="scalar", method=rng.choice([None, None, "closed", "open", "cheby", "gauss"]), extra=rng.choice([0, 0, 1, 3]))
        if rng.random() < 0.2:
            # float knots on the decimal grid k/100 with many spans and the rules whose end nodes are 0 and 1: the affine
            # map of a rule node onto a span must not leave the span by rounding (0.3 + (0.9 - 0.3) > 0.9 in binary64)
            pd = rng.randint(1, 3)
            inner = decimal_inner(rng, rng.randint(3, 7))
            Ud = [F(0)] * (pd + 1) + [F(k, 100) for k in inner] + [F(1)] * (pd + 1)
            nd = len(Ud) - pd - 1
            d = cv.enc_curve({"U": Ud, "P": gen.points(rng, nd, rng.choice([0, 0, 2])), "W": None}, "float")
            d.update(kind="scalar", method=rng.choice(["closed", "closed", "cheby", None]), extra=rng.choice([0, 1]))
        return d
    if r < 9:
        U = gen.kv(rng, nintmax=3)
        nn = rng.randint(1, 6)
        coefs = [[F(rng.randint(-5, 5), rng.choice([1, 2, 3])) for _ in range(rng.randint(1, nn))] for _ in range(len(ref.distinct(U)) - 1)]
        return {"kind": "function", "U": lib.enc(U), "numtype": rng.choice(["frac", "float"]), "nnodes": nn, "coefs": lib.enc(coefs),
                "method": rng.choice([None, "closed", "open", "cheby", "gauss"])}
    nseg = rng.randint(1, 8)
    dim = rng.choice([2, 3])
    U = gen.kv(rng, p=1, nint=nseg - 1, maxmult=1)
    if rng.random() < 0.3:
        inner = decimal_inner(rng, nseg - 1)
        U = [F(0), F(0)] + [F(k, 100) for k in inner] + [F(1), F(1)]
        return {"kind": "lenght", "U": lib.enc(U), "P": lib.enc(gen.points(rng, nseg + 1, dim)), "numtype": "float", "method": rng.choice(["closed", "closed", None])}
    return {"kind": "lenght", "U": lib.enc(U), "P": lib.enc(gen.points(rng, nseg + 1, dim)), "numtype": rng.choice(["frac", "float"]),
            "method": rng.choice([None, "closed", "open", "cheby", "gauss"])}


# ------------------------------------------------------------------ rules
def check_rule(ctx, fam, n, nodes, weights, tag):
    exactfam = fam in ("closed", "open")
    ok = isinstance(nodes, tuple) and isinstance(weights, tuple) and len(nodes) == n and len(weights) == n
    if not ctx.check(ok, f"rule:shape:{fam}", f"{tag}: {fam}({n}) nodes/weights are not tuples of length n"):
        return
    if exactfam:
        tyok = all(isinstance(x, (int, F)) for x in nodes + weights)
        ctx.check(tyok, f"rule:type:{fam}", f"{tag}: {fam}({n}) is not exact (types {set(type(x).__name__ for x in nodes + weights)})")
    X = [ref.fr(x) for x in nodes]
    Wt = [ref.fr(w) for w in weights]
    ctx.check(all(a < b for a, b in zip(X, X[1:])), f"rule:order:{fam}", f"{tag}: {fam}({n}) nodes not strictly increasing")
    lo_ok = all(0 <= x <= 1 for x in X) if fam == "closed" else all(0 < x < 1 for x in X)
    ctx.check(lo_ok, f"rule:range:{fam}", f"{tag}: {fam}({n}) nodes outside the unit interval")
    if fam == "closed":
        ctx.check(X[0] == 0 and X[-1] == 1, "rule:closed-ends", f"{tag}: closed rule does not include the ends")
    tol = F(0) if exactfam else F(1, 10**9)
    ctx.check(abs(sum(Wt) - 1) <= tol, f"rule:weight-sum:{fam}", f"{tag}: {fam}({n}) weights sum to {float(sum(Wt))!r}")
    top = 2 * n if fam == "gauss" else n
    bad = None
    for d in range(top):
        val = sum(w * x**d for w, x in zip(Wt, X))
        if abs(val - F(1, d + 1)) > tol and bad is None:
            bad = (d, val)
    ctx.check(bad is None, f"rule:moment:{fam}", f"{tag}: {fam}({n}) integrates x^{bad[0] if bad else ''} to {float(bad[1]) if bad else ''} instead of 1/{(bad[0] + 1) if bad else ''}")
    ctx.count("rules_checked")


# ------------------------------------------------------------------ cold values
_COLD = None

COLD_SCRIPT = r"""
import importlib, json, sys
from fractions import Fraction
import compmec.nurbs.heavy as heavy
def enc(t):
    return [str(x) if isinstance(x, Fraction) else ("i:%d" % x if isinstance(x, int) else "f:" + float(x).hex()) for x in t]
pairs = json.loads(sys.argv[1])
mode = sys.argv[2]
out = {}
for fam, n in pairs:
    if mode == "reload":
        heavy = importlib.reload(heavy)
    fn = {"closed": (heavy.NodeSample.closed_linspace, heavy.IntegratorArray.closed_newton_cotes),
          "open": (heavy.NodeSample.open_linspace, heavy.IntegratorArray.open_newton_cotes),
          "cheby": (heavy.NodeSample.chebyshev, heavy.IntegratorArray.chebyshev),
          "gauss": (heavy.NodeSample.gauss_legendre, heavy.IntegratorArray.gauss_legendre)}[fam]
    # weights first: it is the call that fills (and depends on) both tables
    w = fn[1](n)
    x = fn[0](n)
    out["%s:%d" % (fam, n)] = [enc(x), enc(w)]
print(json.dumps(out))
"""


def enc_rule(t):
    return [str(x) if isinstance(x, F) else ("i:%d" % x if isinstance(x, int) and not isinstance(x, bool) else "f:" + float(x).hex()) for x in t]


def _spawn(pairs, mode):
    env = dict(os.environ)
    p = subprocess.run([sys.executable, "-B", "-c", COLD_SCRIPT, json.dumps(pairs), mode], capture_output=True, text=True, env=env, timeout=600)
    if p.returncode != 0:
        raise RuntimeError("cold value computation failed: " + p.stderr[-800:])
    return json.loads(p.stdout.strip().splitlines()[-1])


def cold_values(ctx):
    """values of every (family, n) computed with cold memo tables"""
    global _COLD
    if _COLD is None:
        pairs = [[fam, n] for fam in FAMILIES for n in range(2 if fam == "closed" else 1, NMAX + 1)]
        _COLD = _spawn(pairs, "reload")
        # spot check the reload trick against truly fresh interpreters
        import random

        rng = random.Random(os.getpid())
        for fam, n in rng.sample(pairs, 4):
            fresh = _spawn([[fam, n]], "fresh")
            ctx.check(fresh[f"{fam}:{n}"] == _COLD[f"{fam}:{n}"], "history:cold-reference", f"reloaded-module value of {fam}({n}) differs from a fresh interpreter")
    return _COLD


def run_history(case, ctx):
    from compmec.nurbs import Curve, Integrate, heavy

    cold = cold_values(ctx)
    ff = fam_funcs()
    ctx.mark_nontrivial(True)
    ctx.cls("history")
    for c in case["calls"]:
        ctx.count("history_calls")
        if c[0] in ("nodes", "weights"):
            _, fam, n = c
            fn = ff[fam][0 if c[0] == "nodes" else 1]
            o = call(fn, n)
            if not ctx.check(o.ok, f"history:raises:{fam}:{o.exc_name}", f"{c[0]} {fam}({n}) raised {o.brief()}"):
                continue
            want = cold[f"{fam}:{n}"][0 if c[0] == "nodes" else 1]
            got = enc_rule(o.value) if isinstance(o.value, tuple) else None
            ctx.check(got == want, f"history:order-dependent:{fam}:{c[0]}", f"{c[0]} of {fam}({n}) depends on what was requested earlier: {lib.short(got)} vs cold {lib.short(want)}")
        elif c[0] == "nodes-cls":
            _, fam, n, clsname = c
            import numpy as _np

            cls = {"float": float, "Fraction": F, "npfloat": _np.float64}[clsname]
            o = call(ff[fam][0], n, cls)
            if ctx.check(o.ok, f"history:raises:{fam}:{o.exc_name}", f"{fam}_linspace({n}, {clsname}) raised {o.brief()}"):
                want = [cls(k) / (n - 1) for k in range(n)] if fam == "closed" else [cls(k) / (2 * n) for k in range(1, 2 * n, 2)]
                got = o.value
                ok = isinstance(got, tuple) and len(got) == n and all(type(g) is type(w) and g == w for g, w in zip(got, want))
                ctx.check(ok, f"history:order-dependent:{fam}:nodes-cls", f"{fam}_linspace({n}, {clsname}) = {lib.short(got)} (expected {lib.short(want)}): depends on earlier requests")
        elif c[0] == "integrate":
            _, fam, p, npts = c
            npts = max(npts, p + 1)
            U = [0] * (p + 1) + list(range(1, npts - p)) + [npts - p] * (p + 1)
            cur = Curve([F(k) for k in U], [F(i * i - 3) for i in range(npts)])
            nn = max(2, p + 1) if fam == "closed" else p + 1
            o = call(Integrate.scalar, cur, None, METHOD[fam], nn)
            ctx.check(o.ok, f"history:integrate-raises:{fam}:{o.exc_name}", f"Integrate.scalar({fam}) raised {o.brief()}")
        else:
            _, p, q, nt = c
            Ua = lib.nums([F(0)] * (p + 1) + [F(1, 3)] + [F(1)] * (p + 1), nt)
            Ub = lib.nums([F(0)] * (q + 1) + [F(1)] * (q + 1), nt)
            o = call(heavy.LeastSquare.spline2spline, tuple(Ua), tuple(Ub))
            ctx.check(o.ok, f"history:lsq-raises:{o.exc_name}", f"spline2spline raised {o.brief()}")
    # the memo tables themselves, read directly
    tables = {
        "cheby-nodes": heavy.NodeSample._NodeSample__cheby, "gauss-nodes": heavy.NodeSample._NodeSample__gauss,
        "closed": heavy.IntegratorArray._IntegratorArray__closed_newton, "open": heavy.IntegratorArray._IntegratorArray__open_newton,
        "cheby": heavy.IntegratorArray._IntegratorArray__cheby, "gauss": heavy.IntegratorArray._IntegratorArray__gauss,
    }
    for name, tab in tables.items():
        fam = name.split("-")[0]
        which = 0 if name.endswith("nodes") else 1
        for n, val in list(tab.items()):
            key = f"{fam}:{n}"
            if key in cold:
                ctx.check(enc_rule(val) == cold[key][which], f"history:memo-table:{name}", f"memo table {name}[{n}] differs from the cold value")


# ------------------------------------------------------------------ integrals
def closed_form(rc):
    p = rc.p
    return tuple(sum(pt[c] * (rc.U[i + p + 1] - rc.U[i]) / (p + 1) for i, pt in enumerate(rc.P)) for c in range(rc.dim))


def run_scalar(case, ctx):
    from compmec.nurbs import Integrate

    U, P, W, nt = cv.dec_curve(case)
    b = cv.build(ctx, case)
    if b is None:
        return
    curve, rc, exact = b
    p = rc.p
    maxm = max([m for _, m in ref.runs(U)[1:-1]] or [0])
    disc = maxm == p + 1
    vec = rc.dim > 1
    fam = case["method"]
    ctx.cls(f"scalar|p{p}|int{len(ref.distinct(U)) - 2}|{'disc' if disc else 'cont'}|{'vec' if vec else 'scal'}|{nt}|{fam}")
    ctx.mark_nontrivial(len(ref.distinct(U)) > 2)
    ctx.count("scalar_integrals")
    pre = lib.curve_digest(curve)
    kwargs = {}
    if fam is not None:
        kwargs["method"] = METHOD[fam]
        nn = p + 1 + case["extra"]
        if fam == "closed":
            nn = max(2, nn)
        # nnodes is left to its default (degree + 1) unless the case asks for more, or a closed rule would get 1 node
        if case["extra"] or nn != p + 1:
            kwargs["nnodes"] = nn
    elif case["extra"]:
        kwargs["nnodes"] = p + 1 + case["extra"]
    o = call(Integrate.scalar, curve, **kwargs)
    cv.unchanged(ctx, curve, pre, "scalar:modified", "Integrate.scalar")
    feat = f"{fam or 'default'}:{'vec' if vec else 'scal'}:{'disc' if disc else 'cont'}:{'nn-given' if 'nnodes' in kwargs else 'nn-default'}"
    if not ctx.check(o.ok, f"scalar:raises:{o.exc_name}:{feat}", f"Integrate.scalar raised {o.brief()}"):
        return
    want = closed_form(rc)
    exact_rule = exact and fam in (None, "closed", "open")
    if exact_rule:
        ok = lib.pts_equal_exact(o.value, want)
        if not ok and lib.pts_close(o.value, want, 1e-12):
            ctx.check(False, f"scalar:type:{feat}", f"Integrate.scalar of exact data with an exact rule returned {type(o.value).__name__} {lib.short(o.value)}")
        else:
            ctx.check(ok, f"scalar:value:{feat}", f"Integrate.scalar = {lib.short(o.value)} but sum P_i (u_(i+p+1)-u_i)/(p+1) = {lib.short(want)}")
    elif gen.well_conditioned(U) or exact:
        ctx.check(lib.pts_close(o.value, want, 1e-9), f"scalar:value:{feat}", f"Integrate.scalar = {lib.short(o.value)} but closed form = {lib.short([float(x) for x in want])}")


def run_function(case, ctx):
    from compmec.nurbs import Integrate, KnotVector

    U = lib.dec(case["U"])
    nt = case["numtype"]
    coefs = lib.dec(case["coefs"])
    kv = KnotVector(lib.nums(U, nt))
    Uq = [lib.exact_image(x, nt) for x in U]
    br = ref.distinct(Uq)
    fam = case["method"]
    nn = case["nnodes"]
    if fam == "closed":
        nn = max(2, nn)
    ctx.cls(f"function|{nt}|{fam}|nn{nn}")
    ctx.mark_nontrivial(len(br) > 2)
    ctx.count("function_integrals")

    def f(u):
        uq = ref.fr(u)
        k = len(br) - 2
        for j in range(len(br) - 1):
            if br[j] <= uq < br[j + 1]:
                k = j
                break
        if fam == "closed" and uq in br[1:-1]:
            # a closed rule samples the span ends: use one global polynomial there (continuous integrand)
            k = 0
        c = coefs[k if fam != "closed" else 0]
        return sum(ck * u**i for i, ck in enumerate(c))

    want = F(0)
    for j, (a, b) in enumerate(zip(br, br[1:])):
        c = coefs[j if fam != "closed" else 0]
        want += sum(ck * (b ** (i + 1) - a ** (i + 1)) / (i + 1) for i, ck in enumerate(c))
    kwargs = {"nnodes": nn}
    if fam is not None:
        kwargs["method"] = METHOD[fam]
    o = call(Integrate.function, kv, f, **kwargs)
    if not ctx.check(o.ok, f"function:raises:{o.exc_name}:{fam}", f"Integrate.function raised {o.brief()}"):
        return
    exact = nt == "frac" and fam in (None, "closed", "open")
    if exact:
        ctx.check(lib.pts_equal_exact(o.value, (want,)), f"function:value:{fam or 'default'}", f"Integrate.function = {o.value} but exact integral = {want}")
    else:
        # a float quadrature is accurate relative to the size of what it adds up (sum of |c_k| |u|^k times the interval
        # length), not to a result that may be small by cancellation
        big = max(abs(br[0]), abs(br[-1]), 1)
        mag = float(sum(abs(ck) * big ** i for c in coefs for i, ck in enumerate(c)) * (br[-1] - br[0]))
        ctx.check(lib.pts_close(o.value, (want,), 1e-9, mag), f"function:value:{fam or 'default'}", f"Integrate.function = {o.value} but exact integral = {float(want)}")


def run_lenght(case, ctx):
    from compmec.nurbs import Integrate

    U, P = lib.dec(case["U"]), lib.dec(case["P"])
    nt = case["numtype"]
    o = call(lib.mk_curve, U, P, None, nt)
    if not ctx.check(o.ok, "construct", f"polyline rejected {o.brief()}"):
        return
    curve = o.value
    fam = case["method"]
    ctx.cls(f"lenght|{nt}|{fam}|seg{len(P) - 1}")
    ctx.mark_nontrivial(len(P) > 2)
    ctx.count("lenghts")
    want = sum(math.sqrt(sum((float(a) - float(b)) ** 2 for a, b in zip(p0, p1))) for p0, p1 in zip(P, P[1:]))
    kwargs = {}
    if fam is not None:
        kwargs["method"] = METHOD[fam]
        kwargs["nnodes"] = 2 if fam == "closed" else 1
    pre = lib.curve_digest(curve)
    o = call(Integrate.lenght, curve, **kwargs)
    cv.unchanged(ctx, curve, pre, "lenght:modified", "Integrate.lenght")
    if not ctx.check(o.ok, f"lenght:raises:{o.exc_name}:{fam}", f"Integrate.lenght raised {o.brief()}"):
        return
    ctx.check(lib.close(o.value, want, 1e-9), f"lenght:value:{fam or 'default'}", f"Integrate.lenght = {o.value} but the segments add up to {want}")


def run_case(case, ctx):
    kind = case["kind"]
    if kind == "rule":
        fam, n = case["family"], case["n"]
        ff = fam_funcs()[fam]
        ctx.cls(f"rule|{fam}|n{n}")
        ctx.mark_nontrivial(n >= 4)
        ow = call(ff[1], n)
        on = call(ff[0], n)
        if ctx.check(ow.ok and on.ok, f"rule:raises:{fam}", f"{fam}({n}) raised {(ow if not ow.ok else on).brief()}"):
            check_rule(ctx, fam, n, on.value, ow.value, "direct")
        for bad in (0, -1, 1.5, "a") + ((1,) if fam == "closed" else ()):
            o = call(ff[1], bad)
            ctx.check(not o.ok, f"rule:bad-size:{fam}", f"{fam}({bad!r}) returned {lib.short(o.value) if o.ok else ''}")
    elif kind == "history":
        run_history(case, ctx)
    elif kind == "scalar":
        run_scalar(case, ctx)
    elif kind == "function":
        run_function(case, ctx)
    else:
        run_lenght(case, ctx)
