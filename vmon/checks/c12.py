"""C12 - fit_points / fit_function solve the discrete least-squares problem exactly."""
import math
from fractions import Fraction as F

import numpy as np

from .. import cv, gen, lib, ref
from ..lib import call

PROP = "C12"
PLAN = {"quick": (2400, 400), "thorough": (120000, 3600)}
LARGE = (0.02, 24)  # (share, largest size) of the large class of gen.kv: 17+ control points, degree up to 8
STEP_BUDGET = 20_000_000  # loop line events per outermost call: ten times the default, for the large class
RULE = ("case = (knot vector with non uniform / repeated knots, optional weights, data points or an in-space function, "
        "explicit or default nodes, Fraction / float); classes: over-determined data, len(points) == npts "
        "(interpolation), samples of an in-space curve (reproduction), fit_function of an in-space polynomial / rational "
        "function, fewer points than control points. Oracle: collocation matrix from the reference basis, exact rank, "
        "exact normal equations. non-trivial = interior knot or weights; distinct = case JSON")
ANCHORS = ["LeastSquare.fit_function", "Linalg.lstsq", "Linalg.solve", "Curve.fit_points", "Curve.fit_function"]
MIN_COUNTERS = {"fits": 100, "normal_equations": 50, "reproductions": 30, "fit_function": 20, "too_few": 5}
ASSUMPTIONS = ["rank deficient node sets: no outcome demanded", "float class: only collocation matrices with condition number < 1e5 are judged", "float class: normal equation residual to 1e-8 relative on well-conditioned vectors",
               "default nodes: equally distributed on exact intervals (documented); the library's Chebyshev nodes on float intervals"]


def gen_case(rng, idx, tier):
    nt = rng.choice(["frac", "frac", "float"])
    U = gen.kv(rng, pmax=3, nintmax=3)
    p, n = ref.wellformed(U)
    W = gen.weights(rng, n, 9) if rng.random() < 0.35 else None
    dim = rng.choice([0, 0, 2])
    a, b = U[0], U[-1]
    kind = rng.choice(["over", "over", "interp", "repro", "repro", "function", "function", "toofew", "reprosq", "reprosq"])
    d = {"U": lib.enc(U), "W": lib.enc(W), "numtype": nt, "kind": kind, "dim": dim}
    if kind == "function":
        d["P0"] = lib.enc(gen.points(rng, n, dim))
        return d
    if kind == "toofew":
        cnt = rng.randint(0, n - 1)
    elif kind in ("interp", "reprosq"):
        cnt = n  # reprosq: samples of an in-space curve at exactly npts nodes (square system, control points judged)
    else:
        cnt = n + rng.randint(1, 6)
    default = rng.random() < 0.35
    if default:
        nodes = None
    else:
        pool = sorted({a + (b - a) * F(i, 41) for i in range(0, 42)} | set(ref.distinct(U)))
        nodes = sorted(rng.sample(pool, min(cnt, len(pool))))
        if kind in ("interp", "reprosq") and len(nodes) >= 2 and rng.random() < (0.7 if kind == "reprosq" else 0.35):
            # two interpolation nodes 3e-5..3e-4 of the interval apart: a legal, moderately ill-conditioned square system
            # (condition number 1e3..1e5), where a solver that squares the condition number loses 1e-8..1e-6
            i = rng.randrange(len(nodes) - 1)
            near = nodes[i] + (b - a) * F(1, rng.choice([3000, 10000, 30000]))
            if near < nodes[i + 1]:
                nodes[i + 1] = near
        if rng.random() < 0.5:
            rng.shuffle(nodes)  # (z_k, Z_k) pairs may come in any order
        cnt = len(nodes)
    d["nodes"] = lib.enc(nodes)
    d["count"] = cnt
    if kind in ("repro", "reprosq"):
        d["P0"] = lib.enc(gen.points(rng, n, dim))
    else:
        d["Z"] = lib.enc(gen.points(rng, cnt, dim))
    return d


def default_nodes(Uq, cnt, exactlimits):
    from compmec.nurbs import heavy

    a, b = Uq[0], Uq[-1]
    if cnt == 0:
        return []
    if exactlimits:
        if cnt == 1:
            return None
        return [a + (b - a) * F(k, cnt - 1) for k in range(cnt)]
    return [ref.fr(float(a) + (float(b) - float(a)) * t) for t in heavy.NodeSample.chebyshev(cnt)]


def run_case(case, ctx):
    from compmec.nurbs import Curve

    U, W = lib.dec(case["U"]), lib.dec(case["W"])
    nt = case["numtype"]
    exact = nt == "frac"
    Un = lib.nums(U, nt)
    Uq = [ref.fr(x) for x in Un]
    p, n = ref.wellformed(Uq)
    Wq = None if W is None else [lib.exact_image(w, nt) for w in W]
    kind = case["kind"]
    dim = case["dim"]
    rat = "rat" if W is not None else "poly"
    ctx.cls(f"p{p}|int{len(ref.distinct(U)) - 2}|{rat}|{nt}|{kind}|dim{dim}")
    ctx.mark_nontrivial(len(ref.distinct(U)) > 2 or W is not None)
    judged = exact or gen.well_conditioned(U, W)
    o = call(Curve, Un, None, None if W is None else lib.nums(W, nt))
    if not ctx.check(o.ok, "construct", f"curve rejected {o.brief()}"):
        return
    curve = o.value

    def basisrow(z):
        N = ref.basis(Uq, p, z)[:n]
        if Wq is None:
            return N
        den = sum(a * b for a, b in zip(N, Wq))
        return [a * w / den for a, w in zip(N, Wq)]

    if kind == "function":
        ctx.count("fit_function")
        P0 = lib.dec(case["P0"])
        rc0 = lib.case_rc(U, P0, W, nt)
        scal = dim == 0

        def f(u):
            v = rc0(ref.fr(u))
            v = [x if exact else float(x) for x in v]
            return v[0] if scal else np.array(v, dtype=object if exact else "float64")

        o = call(curve.fit_function, f)
        if not ctx.check(o.ok, f"fitfunction:raises:{o.exc_name}:{rat}", f"fit_function raised {o.brief()}"):
            return
        got = cv.state_rc(ctx, curve, "fit_function")
        if got is None or not judged:
            return
        if exact:
            fl = cv.exact_state(curve)
            ctx.check(fl is None, "fitfunction:type", f"float introduced at {fl}")
            ctx.check(got.P == rc0.P, f"fitfunction:reproduce:{rat}", f"f lies in the curve's space but fit_function returned {lib.short(got.P)} instead of {lib.short(rc0.P)}")
        else:
            sc = cv.scale_of(rc0)
            ctx.check(all(abs(float(a) - float(b)) <= 1e-7 * sc for pa, pb in zip(got.P, rc0.P) for a, b in zip(pa, pb)), f"fitfunction:reproduce:{rat}", "f lies in the curve's space but is not reproduced")
        o = call(curve.fit_function, f, [Un[0]])
        ctx.check(not o.ok, "fitfunction:nodes-accepted", "fit_function(f, nodes) is documented as not implemented but returned")
        return

    cnt = case["count"]
    nodes = lib.dec(case["nodes"])
    explicit = nodes is not None
    if explicit:
        nodes_n = lib.nums(nodes, nt)
        zq = [ref.fr(x) for x in nodes_n]
    else:
        zq = default_nodes(Uq, cnt, exact)
        if zq is None:
            return
    if kind in ("repro", "reprosq"):
        P0 = lib.dec(case["P0"])
        rc0 = lib.case_rc(U, P0, W, nt)
        Zq = [rc0(z) for z in zq]
    else:
        Z = lib.dec(case["Z"])
        Zq = [tuple(lib.exact_image(c, nt) for c in lib.pt_tuple_case(z)) for z in Z]
    if dim == 0:
        Zn = [(z[0] if exact else float(z[0])) for z in Zq]
    else:
        Zn = [np.array([c if exact else float(c) for c in z], dtype=object if exact else "float64") for z in Zq]
    if not exact and kind != "toofew" and all(c.denominator == 1 for z in Zq for c in z) and len(Zq) % 2 == 0:
        # integral data handed over as one integer numpy array: the fitted control points are not integers
        Zn = np.array([int(z[0]) for z in Zq] if dim == 0 else [[int(c) for c in z] for z in Zq], dtype="int64")
        ctx.count("int64_data_arrays")
    pre = lib.curve_digest(curve)
    args = (Zn, nodes_n) if explicit else (Zn,)
    o = call(curve.fit_points, *args)
    if kind == "toofew":
        ctx.count("too_few")
        ctx.check(not o.ok, "fitpoints:too-few-accepted", f"fit_points with {cnt} points for {n} control points was accepted")
        cv.unchanged(ctx, curve, pre, "fitpoints:too-few-not-atomic", "rejected fit_points")
        return
    B = [basisrow(z) for z in zq]
    if ref.rank(B) < n:
        ctx.count("rank_deficient")
        return
    ctx.count("fits")
    cond = 1.0
    if not exact:
        # float verdicts only on numerically well-posed collocation problems: clustered nodes or default nodes on a
        # discontinuous basis give full rank matrices with condition numbers far beyond what 1e-8 can be asked of
        cond = float(np.linalg.cond(np.array([[float(x) for x in row] for row in B], dtype="float64")))
        if not cond < 1e5:
            judged = False
            ctx.count("float_ill_conditioned_unjudged")
    feat = f"{rat}:{'explicit' if explicit else 'default'}:{kind}"
    if not o.ok and not exact and not judged:
        # a collocation matrix of full exact rank but numerically singular (condition number >= 1e5, e.g. default nodes
        # on a discontinuous basis): a float solver may refuse it
        ctx.count("float_ill_conditioned_refused")
        return
    if not ctx.check(o.ok, f"fitpoints:raises:{o.exc_name}:{feat}", f"fit_points raised {o.brief()}"):
        return
    got = cv.state_rc(ctx, curve, "fit_points")
    if got is None or not judged:
        return
    if exact:
        fl = cv.exact_state(curve)
        ctx.check(fl is None, "fitpoints:type", f"float introduced at {fl}")
    Q = got.P
    d = len(Zq[0])
    sc = max([1.0] + [abs(float(c)) for z in Zq for c in z])
    # normal equations B^T (B Q - Z) = 0
    ctx.count("normal_equations")
    R = [[sum(B[k][i] * Q[i][c] for i in range(n)) - Zq[k][c] for c in range(d)] for k in range(len(zq))]
    worst = 0
    for i in range(n):
        for c in range(d):
            v = sum(B[k][i] * R[k][c] for k in range(len(zq)))
            worst = max(worst, abs(v))
    ctx.check(worst == 0 if exact else float(worst) <= 1e-8 * sc * len(zq), f"fitpoints:normal-equations:{feat}", f"residual not orthogonal to the collocation matrix: max |B^T(BQ-Z)| = {float(worst)!r}")
    if len(zq) == n:
        w = max(abs(x) for row in R for x in row)
        ctx.check(w == 0 if exact else float(w) <= 1e-8 * sc, f"fitpoints:interpolation:{feat}", f"len(points) == npts but the curve misses a point by {float(w)!r}")
    if kind in ("repro", "reprosq"):
        ctx.count("reproductions")
        if exact:
            ctx.check(Q == rc0.P, f"fitpoints:reproduce:{feat}", "samples of an in-space curve are not reproduced")
        else:
            # square systems are solved directly: the control points are accurate to a small multiple of cond * eps
            # (observed: 1.2e-15 * cond); a solver that squares the condition number is 1e3 times worse at cond = 1e4
            tol = max(1e-11, 2e-13 * cond) if len(zq) == n else 1e-7
            worst = max(abs(float(a) - float(b)) for pa, pb in zip(Q, rc0.P) for a, b in zip(pa, pb))
            ctx.check(worst <= tol * sc, f"fitpoints:reproduce:{feat}", f"samples of an in-space curve are not reproduced: control points off by {worst!r} (condition number {cond:.1e})")
