"""C05 - knot removal is exact when possible, refused otherwise, never silently lossy."""
from fractions import Fraction as F

from .. import cv, gen, lib, ref
from ..lib import call

PROP = "C05"
PLAN = {"quick": (1600, 300), "thorough": (50000, 3600)}
LARGE = (0.08, 20)  # (share, largest size) of the large class of gen.kv: 17+ control points, degree up to 8
STEP_BUDGET = 20_000_000  # loop line events per outermost call: ten times the default, for the large class
RULE = ("case = (curve, nodes to remove, tolerance, regime); regime a: the curve is an exact Boehm refinement (built by the "
        "reference model) of a coarser curve and the inserted knots are removed; regime b: generic curve, 1..mult copies "
        "of interior knots, tolerance in {default, 1e-9, 0, 1e-6, 1e-3, 1e-1, 10}; regime c: tolerance=None; plus "
        "absent / end / outside knots. non-trivial = regime a with another interior knot besides the removed ones, or "
        "regime b / c; distinct = case JSON")
ANCHORS = ["LeastSquare.func2func", "BaseCurve.update", "Curve.fit_curve", "Curve.knot_remove"]
MIN_COUNTERS = {"regime_a": 20, "regime_b": 20, "regime_c": 10, "invalid_requests": 5}
ASSUMPTIONS = ["rational curves: exact removability is decided in homogeneous form (sufficient condition)",
               "rational deviation integrals: 20 point Gauss rule per span on exact samples, 1% slack",
               "float class judged on well-conditioned curves: regime a to 1e-9 relative, regime b with 1% slack"]

TOLS = [None, "1e-9", "0", "1e-6", "1e-3", "1e-1", "10"]  # None here = argument omitted (default 1e-9)


def gen_case(rng, idx, tier):
    r = rng.random()
    nt = cv.pick_numtype(rng, None, 0.25)
    if r < 0.4:
        regime = "a"
        base = gen.curve(rng, nintmax=3, big=(rng.random() < 0.04))
        U0 = base["U"]
        p = ref.degree(U0)
        a, b = U0[0], U0[-1]
        nodes = []
        cur = list(U0)
        for _ in range(rng.randint(1, 3)):
            if rng.random() < 0.35 and len(ref.distinct(cur)) > 2:
                k = rng.choice(ref.distinct(cur)[1:-1])
            else:
                k = a + (b - a) * F(rng.randint(1, 59), 60)
                if rng.random() < 0.15 and a < 0 < b:
                    k = F(0)
            if ref.mult(cur, k) < p + 1:
                nodes.append(k)
                cur = sorted(cur + [k])
        if not nodes:
            return None
        fine = ref.insert_many(lib.case_rc(U0, base["P"], base["W"]), nodes)
        dim0 = not isinstance(base["P"][0], list)
        P = [pt[0] for pt in fine.P] if dim0 else [list(pt) for pt in fine.P]
        d = cv.enc_curve({"U": fine.U, "P": P, "W": fine.W}, nt)
        d["coarse"] = cv.enc_curve(base, nt)
        tol = rng.choice([None, None, "1e-9", "0", "1e-6"])
    else:
        cur = gen.curve(rng, nintmax=4)
        U = cur["U"]
        ks = ref.distinct(U)
        p = ref.degree(U)
        if r < 0.88 and len(ks) > 2:
            regime = "b" if r < 0.72 else "c"
            nodes = []
            for _ in range(rng.choice([1, 1, 2])):
                k = rng.choice(ks[1:-1])
                room = ref.mult(U, k) - nodes.count(k)
                if room > 0:
                    nodes += [k] * rng.randint(1, room)
            if not nodes:
                return None
            rng.shuffle(nodes)
            tol = rng.choice(TOLS) if regime == "b" else "None"
        else:
            regime = "x"
            how = rng.choice(["absent", "end", "outside", "toomany", "bothends"])
            a, b = U[0], U[-1]
            if how == "absent":
                v = a + (b - a) * F(rng.randint(1, 60), 61)
                nodes = [v]
            elif how == "end":
                nodes = [rng.choice([a, b])]
            elif how == "bothends":
                nodes = [a, b]
            elif how == "outside":
                nodes = [b + 1]
            else:
                if len(ks) <= 2:
                    return None
                k = rng.choice(ks[1:-1])
                nodes = [k] * (ref.mult(U, k) + 1)
            tol = rng.choice([None, "None", "1e-3"])
            cur["how"] = how
        d = cv.enc_curve(cur, nt)
        if regime == "x":
            d["how"] = cur["how"]
    if tol == "0" and nt != "frac":
        tol = "1e-9"  # tolerance 0 is only meaningful in exact arithmetic
    d["nodes"] = lib.enc(nodes)
    d["argform"] = rng.choice(["list", "list", "tuple", "array", "generator"])
    d["tol"] = tol
    d["regime"] = regime
    return d


def deviation_ok(ctx, old, new, tol, exact, key, what):
    """integral of squared deviation <= 2*tol*max(1, L) per coordinate"""
    L = old.U[-1] - old.U[0]
    bound = 2 * tol * max(1, L)
    if old.W is None and new.W is None:
        dev = ref.sq_deviation(old, new)
        slack = F(1) if exact else F(101, 100)
        worst = max(dev)
        return ctx.check(worst <= bound * slack + (0 if exact else F(1, 10**15)), key, f"{what}: integral of squared deviation {float(worst):.3e} > 2*tol*max(1,L) = {float(bound):.3e}", dev=float(worst), bound=float(bound))
    dev = ref.sq_deviation_numeric(old, new)
    worst = max(dev)
    return ctx.check(worst <= float(bound) * 1.01 + 1e-15, key, f"{what}: integral of squared deviation {worst:.3e} > 2*tol*max(1,L) = {float(bound):.3e}", dev=worst, bound=float(bound))


def run_case(case, ctx):
    U, P, W, nt = cv.dec_curve(case)
    b = cv.build(ctx, case)
    if b is None:
        return
    curve, rc, exact = b
    p = rc.p
    regime = case["regime"]
    kind = "rat" if W is not None else "poly"
    judged = exact or gen.well_conditioned(U, W)
    ctx.cls(cv.label(U, P, W, nt) + f"|{regime}|tol={case['tol']}")
    nodes_n = [lib.num(F(n), nt) for n in lib.dec(case["nodes"])]
    nodes_q = [ref.fr(x) for x in nodes_n]
    tolarg = case["tol"]
    kwargs = {}
    if tolarg == "None":
        kwargs["tolerance"] = None
        tol = None
    elif tolarg is None:
        tol = F(1, 10**9)
    else:
        # exact rational value of the literal
        tol = {"1e-9": F(1, 10**9), "0": F(0), "1e-6": F(1, 10**6), "1e-3": F(1, 1000), "1e-1": F(1, 10), "10": F(10)}[tolarg]
        kwargs["tolerance"] = {"1e-9": 1e-9, "0": 0, "1e-6": 1e-6, "1e-3": 1e-3, "1e-1": 1e-1, "10": 10}[tolarg]
    pre = lib.curve_digest(curve)
    # expected knot vector
    exp = list(rc.U)
    legal = True
    for x in nodes_q:
        if x in exp:
            exp.remove(x)
        else:
            legal = False
    degree_changed = False
    if legal:
        wf = ref.wellformed(exp)
        legal = wf is not None and (exp[0], exp[-1]) == (rc.U[0], rc.U[-1])
        degree_changed = legal and wf[0] != p  # both end knots removed: a degree reduction; may be refused
    o = call(curve.knot_remove, lib.container(nodes_n, case.get("argform", "list")), **kwargs)
    if not legal:
        ctx.count("invalid_requests")
        how = case.get("how", "?")
        if o.ok:
            ctx.check(False, f"remove:accepts-invalid:{how}", f"knot_remove({case['nodes']}) on {lib.short(U)} accepted")
            return
        ctx.check(isinstance(o.exc, ValueError), f"remove:wrong-exception:{o.exc_name}:{how}", f"impossible knot_remove raised {o.brief()} (ValueError required)")
        cv.unchanged(ctx, curve, pre, f"remove:not-atomic:{how}", f"knot_remove({case['nodes']}) raised {o.exc_name}")
        return
    target = ref.represent_curve(rc, exp) if judged else None  # exact coarse representation when it exists
    removable = target is not None
    ctx.mark_nontrivial(regime in ("b", "c") or len(ref.distinct(exp)) > 2)
    ctx.count(f"regime_{regime}")
    if regime == "a" and exact:
        assert removable, "reference model: refined curve must be exactly removable"
    if regime == "a" and not exact and not judged:
        ctx.count("unjudged_float")
        return
    if regime == "a" and judged and not exact:
        # float image of an exact refinement: removable up to rounding; must succeed and reproduce the coarse curve
        cU, cP, cW, _ = cv.dec_curve(case["coarse"])
        coarse = lib.case_rc(cU, cP, cW, nt)
        if not ctx.check(o.ok, f"remove:refuses-removable:{kind}:float", f"float image of an exact refinement: knots {case['nodes']} refused: {o.brief()}", tol=tolarg):
            cv.unchanged(ctx, curve, pre, "remove:not-atomic:refused", "knot_remove refused")
            return
        ctx.count("removed_exact")
        new = cv.state_rc(ctx, curve, "knot_remove")
        if new is not None:
            why = cv.knots_match(lib.curve_state(curve)[0], exp, False)
            ctx.check(why is None, "remove:knots", f"after knot_remove({case['nodes']}): {why}")
            d = cv.function_diff(coarse, new, False, 1e-8)
            ctx.check(d is None, f"remove:lossy-on-removable:{kind}:float", f"float removal of inserted knots does not give back the coarse curve: {d}")
        return
    if not o.ok:
        if not isinstance(o.exc, ValueError):
            ctx.check(False, f"remove:raises:{o.exc_name}:{kind}", f"knot_remove({case['nodes']}, tol={tolarg}) raised {o.brief()}", regime=regime)
            cv.unchanged(ctx, curve, pre, "remove:not-atomic:error", f"knot_remove raised {o.exc_name}")
            return
        cv.unchanged(ctx, curve, pre, f"remove:not-atomic:refused:{kind}", "knot_remove refused (ValueError)")
        if degree_changed:
            ctx.count("refused_degree_change")
        elif tol is None:
            why = "weight-root" if ("Zero division" in str(o.exc) or "weights change sign" in str(o.exc)) else "other"
            ctx.check(False, f"remove:none-refused:{kind}:{why}", f"knot_remove(tolerance=None) raised {o.brief()}")
        elif removable:
            ctx.check(False, f"remove:refuses-removable:{kind}", f"exactly removable knots {case['nodes']} were refused: {o.brief()}", regime=regime, tol=tolarg)
        else:
            ctx.count("refused_nonremovable")
            ctx.compared()
        return
    # success
    Un, Pn, Wn = lib.curve_state(curve)
    why = cv.knots_match(Un, exp, exact)
    ctx.check(why is None, "remove:knots", f"after knot_remove({case['nodes']}): {why}")
    new = cv.state_rc(ctx, curve, "knot_remove")
    if new is None or why is not None:
        return
    if exact:
        fl = cv.exact_state(curve)
        ctx.check(fl is None, f"remove:type:{kind}", f"float introduced by exact knot removal at {fl}")
    if not judged:
        ctx.count("unjudged_float")
        return
    if removable:
        ctx.count("removed_exact")
        d = cv.function_diff(rc, new, exact)
        ctx.check(d is None, f"remove:lossy-on-removable:{kind}", f"exactly removable knots removed but the curve changed: {d}", regime=regime, tol=tolarg)
        if exact and W is None:
            ctx.check(new.P == target.P, "remove:ctrlpoints", "control points differ from the exact coarse representation")
    elif tol is None:
        ctx.count("removed_none")
        # passes through the old curve at every remaining knot
        if new.p >= 1:
            for k in ref.distinct(exp):
                a, bb = rc(k), new(k)
                ok = a == bb if exact else lib.pts_close([float(x) for x in bb], a, 1e-9)
                ctx.check(ok, f"remove:none-interpolation:{kind}", f"tolerance=None: new({k}) = {lib.short(bb)} but old({k}) = {lib.short(a)}")
    else:
        ctx.count("removed_lossy")
        deviation_ok(ctx, rc, new, tol, exact, f"remove:silently-lossy:{kind}", f"knot_remove({case['nodes']}, tol={tolarg}) succeeded")
    cv.lib_eval_matches(ctx, curve, new, exact, "remove", n=3)
