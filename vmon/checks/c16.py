"""C16 - results do not depend on the number representation.

Differential monitor: the same program on the same data in Fraction / int / float / numpy.float64 (and big rationals,
and a minimal user-defined point type) + type sanitizer M5 (no float may appear in an exact result)."""
from fractions import Fraction as F

import numpy as np

from .. import cv, gen, lib, ref
from ..lib import call

PROP = "C16"
PLAN = {"quick": (900, 500), "thorough": (14000, 3600)}
RULE = ("case = (curve data, second curve, nodes, program); programs: eval, basis, insert, remove, elevate, reduce, split, "
        "join, add, sub, mul, div, fit_curve, fit_points, integrate; each program runs in every applicable representation "
        "(Fraction, int when integral, float, numpy.float64); classes: ordinary rationals, big rationals (numerators / "
        "denominators up to 1e12), minimal point type (only point+point and scalar*point). exact run: no float anywhere "
        "and equal to the reference model; float runs: equal to the exact run within 1e-9 relative on well-conditioned "
        "data. non-trivial = interior knot or weights or big rationals; distinct = case JSON")
ANCHORS = ["number_type", "Linalg.solve", "Linalg.invert", "Linalg.invert_integer_matrix", "Operations.knot_insert", "eval_spline_nodes"]
MIN_COUNTERS = {"programs": 200, "float_vs_exact": 100, "exact_type_scans": 200, "bigrational": 10, "minimal_point": 8}
ASSUMPTIONS = ["int knots go through Python's true division inside the library and are judged like floats (1e-9)",
               "float verdicts only on the well-conditioned class"]

PROGRAMS = ["eval", "basis", "insert", "remove", "elevate", "reduce", "split", "join", "add", "sub", "mul", "div", "fit_curve", "fit_points", "fit_interp", "integrate"]


def gen_case(rng, idx, tier):
    prog = PROGRAMS[idx % len(PROGRAMS)]
    cls = rng.choice(["plain", "plain", "plain", "integral", "big", "minimal"])
    if cls == "minimal" and prog not in ("eval", "insert", "elevate", "split"):
        cls = "plain"
    big = cls == "big"
    pmax = 2 if big else 3
    if prog == "integrate" and not big and cls != "integral":
        pmax = 7  # the default rule has degree+1 nodes: larger rules than the usual examples
    if cls == "integral":
        U = gen.integer_kv(rng, pmax=3, nintmax=2)
        p, n = ref.wellformed(U)
        A = {"U": U, "P": [F(rng.randint(-9, 9)) for _ in range(n)] if rng.random() < 0.5 else gen.points(rng, n, 0), "W": None}
    else:
        A = gen.curve(rng, pmax=pmax, nintmax=1 if big else 2, dim=0 if prog in ("div", "fit_points", "fit_interp", "integrate") or big else rng.choice([0, 0, 2]),
                      rational=(rng.random() < 0.3 and prog not in ("fit_curve", "fit_points", "fit_interp", "integrate", "basis")), big=big, wratio=9)
    if cls == "minimal":
        A["W"] = None
        if not isinstance(A["P"][0], list):
            A["P"] = [[x, x + 1] for x in A["P"]]
    U = A["U"]
    a, b = U[0], U[-1]
    p = ref.degree(U)
    nodes = []
    for _ in range(rng.randint(1, 2)):
        k = a + (b - a) * F(rng.randint(1, 29), 30) if cls != "integral" else a + (b - a) * F(rng.randint(1, 7), 8)
        if ref.mult(U + nodes, k) < p + 1:
            nodes.append(k)
    if not nodes:
        return None
    scal = not isinstance(A["P"][0], list)
    B = gen.curve(rng, pmax=2, nintmax=1, dim=0 if (scal or prog in ("div", "mul")) else len(A["P"][0]), rational=False, itv=(a, b), big=False)
    if prog == "div":
        B["P"] = [F(rng.randint(1, 9), rng.choice([1, 2, 3])) for _ in B["P"]]
    # parameters are fixed exactly here and only converted at run time, so that a parameter equal to a knot stays
    # equal to it in every representation (a curve may be discontinuous there)
    params = [a, b] + nodes + [a + (b - a) * F(1, 3)]
    ks = ref.distinct(U)
    fitnodes = []
    for x0, x1 in zip(ks, ks[1:]):
        fitnodes += ref.sample_points(x0, x1, p + 1)
    return {"A": cv.enc_curve(A, "frac"), "B": cv.enc_curve(B, "frac"), "nodes": lib.enc(nodes), "prog": prog, "cls": cls, "t": rng.choice([1, 1, 2]),
            "params": lib.enc(params), "fitnodes": lib.enc(fitnodes), "order": rng.choice(["exact-first", "exact-last"]),
            "nnodes": rng.choice([None, None, 8, 9, 11]) if prog == "integrate" else None}


class Pt:
    """minimal user point: only point + point and scalar * point"""

    __slots__ = ("c",)

    def __init__(self, c):
        self.c = tuple(c)

    def __add__(self, other):
        if not isinstance(other, Pt):
            return NotImplemented
        return Pt(a + b for a, b in zip(self.c, other.c))

    def __rmul__(self, s):
        if isinstance(s, Pt):
            return NotImplemented
        return Pt(s * a for a in self.c)

    def __repr__(self):
        return f"Pt{self.c}"


def flat(x, out):
    """flatten a nested result into numbers"""
    if isinstance(x, Pt):
        flat(x.c, out)
    elif x is None:
        out.append(None)
    elif isinstance(x, np.ndarray):
        flat(x.tolist(), out)
    elif isinstance(x, (list, tuple)):
        for y in x:
            flat(y, out)
    elif hasattr(x, "_BaseCurve__knotvector"):
        U, P, W = lib.curve_state(x)
        flat(U, out)
        flat(P, out)
        flat(W, out)
    elif hasattr(x, "_KnotVector__internal"):
        flat(list(x), out)
    else:
        out.append(x)
    return out


def run_program(prog, case, nt, minimal=False):
    """-> Outcome whose value is the raw result (nested)"""
    from compmec.nurbs import Curve, Function, Integrate

    U, P, W, _ = cv.dec_curve(case["A"])
    nodes = [lib.num(x, "frac" if nt == "fracint" else nt) for x in lib.dec(case["nodes"])]
    t = case["t"]

    knt = "frac" if nt == "fracint" else nt  # knots and parameters of the int-point exact class stay Fractions

    def body():
        if minimal:
            A = Curve(lib.nums(U, knt), [Pt(lib.num(c, nt) for c in pt) for pt in P])
        else:
            A = lib.mk_curve(U, P, W, nt)
        params = [lib.num(x, knt) for x in lib.dec(case["params"])]
        if prog == "eval":
            return [A(u) for u in params] + [A.eval(params)]
        if prog == "basis":
            f = Function(lib.nums(U, knt))
            return [f[:, j](u) for j in range(A.degree + 1) for u in params]
        if prog == "insert":
            A.knot_insert(nodes)
            return A
        if prog == "remove":
            A.knot_insert(nodes)
            A.knot_remove(nodes)
            return A
        if prog == "elevate":
            A.degree_increase(t)
            return A
        if prog == "reduce":
            A.degree_increase(t)
            A.degree_decrease(t)
            return A
        if prog == "split":
            return list(A.split(nodes))
        if prog == "join":
            pcs = A.split(nodes)
            acc = pcs[0]
            for pc in pcs[1:]:
                acc = acc | pc
            return acc
        UB, PB, WB, _ = cv.dec_curve(case["B"])
        Bc = lib.mk_curve(UB, PB, WB, nt)
        if prog == "add":
            return A + Bc
        if prog == "sub":
            return A - Bc
        if prog == "mul":
            return Bc * A if (np.ndim(A.ctrlpoints) > 1) else A * Bc
        if prog == "div":
            return A / Bc
        if prog == "fit_curve":
            S = Curve(lib.nums(UB, knt))
            err = S.fit_curve(A)
            return [S, err]
        if prog == "fit_points":
            zs = [lib.num(x, knt) for x in lib.dec(case["fitnodes"])]
            pts = [lib.num(F(i * i - 3, 2), nt) for i in range(len(zs))]
            S = Curve(lib.nums(U, knt))
            S.fit_points(pts, zs)
            return S
        if prog == "fit_interp":
            # as many points as control points (square system): Greville-like nodes, one per control point
            n = A.npts
            Uq = lib.dec(case["A"]["U"])
            p_ = A.degree
            zq = [sum(Uq[i + 1:i + p_ + 1], F(0)) / p_ if p_ else (Uq[i] + Uq[i + 1]) / 2 for i in range(n)]
            if len(set(zq)) < n:
                return None
            zs = [lib.num(x, knt) for x in zq]
            pts = [lib.num(F(i * i - 3, 2), nt) for i in range(n)]
            S = Curve(lib.nums(U, knt))
            S.fit_points(pts, zs)
            return S
        if prog == "integrate":
            nn = case.get("nnodes")
            return Integrate.scalar(A) if not nn or nn <= A.degree else Integrate.scalar(A, nnodes=nn)
        raise ValueError(prog)

    return call(body)


def expected_exact(prog, case):
    """reference result for the exact run: (kind, payload)"""
    U, P, W, _ = cv.dec_curve(case["A"])
    rc = lib.case_rc(U, P, W)
    nodes = lib.dec(case["nodes"])
    if prog in ("insert", "remove", "elevate", "reduce", "join"):
        return "function", rc
    if prog == "split":
        return "pieces", rc
    if prog in ("add", "sub", "mul", "div"):
        UB, PB, WB, _ = cv.dec_curve(case["B"])
        return "arith", (rc, lib.case_rc(UB, PB, WB))
    if prog == "integrate":
        p = rc.p
        return "value", sum(pt[0] * (rc.U[i + p + 1] - rc.U[i]) / (p + 1) for i, pt in enumerate(rc.P))
    return "none", None


def run_case(case, ctx):
    prog, cls = case["prog"], case["cls"]
    U, P, W, _ = cv.dec_curve(case["A"])
    p = ref.degree(U)
    integral = all(k.denominator == 1 for k in U)
    ctx.cls(f"{prog}|{cls}|p{p}|{'rat' if W is not None else 'poly'}")
    ctx.mark_nontrivial(len(ref.distinct(U)) > 2 or W is not None or cls == "big")
    ctx.count("programs")
    if cls == "big":
        ctx.count("bigrational")
    # ---------------- exact run (in half of the cases the other representations run first in the same process:
    # the exact result must not depend on what ran before)
    minimal = cls == "minimal"
    early = {}
    if case.get("order") == "exact-last" and not minimal and cls != "big":
        for nt in ["float", "npfloat"] + (["int"] if integral else []):
            early[nt] = run_program(prog, case, nt)
        ctx.count("exact_run_last")
    o = run_program(prog, case, "frac", minimal)
    if minimal:
        ctx.count("minimal_point")
    if not ctx.check(o.ok, f"exact:raises:{prog}:{o.exc_name}:{cls}", f"{prog} in exact arithmetic ({cls}) raised {o.brief()}"):
        return
    exact_res = o.value
    ctx.count("exact_type_scans")
    nums = flat(exact_res, [])
    bad = next((x for x in nums if x is not None and not lib.is_exact_number(x)), None)
    ctx.check(bad is None, f"exact:float-introduced:{prog}", f"{prog} on Fraction knots / parameters and rational points returned a {type(bad).__name__} ({bad!r})", cls=cls)
    # correctness of the exact run
    kind, payload = expected_exact(prog, case)
    if minimal:
        # coordinate-wise exact result of the same program on ordinary points
        o2 = run_program(prog, case, "frac", False)
        if ctx.check(o2.ok, f"exact:raises:{prog}:{o2.exc_name}:plain", "plain run failed"):
            a, b = flat(exact_res, []), flat(o2.value, [])
            ctx.check(len(a) == len(b) and all(x == y for x, y in zip(a, b)), f"minimal-point:differs:{prog}", f"{prog} with a minimal point type differs from the coordinate-wise exact result")
    elif bad is None:
        try:
            if kind == "function":
                got = lib.to_rc(exact_res)
                d = ref.first_difference(payload, got)
                ctx.check(d is None, f"exact:wrong:{prog}:{cls}", f"{prog}: exact result is not the same function: {lib.short(d, 300)}")
            elif kind == "pieces":
                for pc in exact_res:
                    d = ref.restrict_equal(lib.to_rc(pc), payload)
                    ctx.check(d is None, f"exact:wrong:{prog}:{cls}", f"split piece differs: {lib.short(d, 300)}")
            elif kind == "arith":
                from .c08 import pt_op

                ra, rb = payload
                got = lib.to_rc(exact_res)
                swap = prog == "mul" and ra.dim > 1
                br = ref.merged_breaks(ra.breaks(), rb.breaks(), got.breaks())
                okk = True
                for x0, x1 in zip(br, br[1:]):
                    for x in ref.sample_points(x0, x1, got.p + ra.p + rb.p):
                        want = pt_op(prog, rb(x), ra(x)) if swap else pt_op(prog, ra(x), rb(x))
                        okk &= got(x) == want
                ctx.check(okk, f"exact:wrong:{prog}:{cls}", f"{prog}: exact result is not the pointwise operation")
            elif kind == "value":
                ctx.check(ref.fr(exact_res) == payload, f"exact:wrong:{prog}:{cls}", f"integral {exact_res} != {payload}")
        except Exception as e:
            ctx.check(False, f"exact:malformed:{prog}", f"{prog}: exact result cannot be interpreted: {e!r}")
    # the other exact class of the statement: Fraction knots with Python *int* control points and weights
    if not minimal and bad is None:
        o2 = run_program(prog, case, "fracint")
        ctx.count("int_point_runs")
        if ctx.check(o2.ok, f"exact:raises:{prog}:{o2.exc_name}:int-points", f"{prog} with Fraction knots and int points / weights raised {o2.brief()}"):
            n2 = flat(o2.value, [])
            b2 = next((x for x in n2 if x is not None and not lib.is_exact_number(x)), None)
            ctx.check(b2 is None, f"exact:float-introduced:{prog}:int-points", f"{prog} on Fraction knots with int control points / weights returned a {type(b2).__name__} ({b2!r})")
            if b2 is None:
                ctx.check(len(n2) == len(nums) and all((x is None and y is None) or (x is not None and y is not None and ref.fr(x) == ref.fr(y)) for x, y in zip(n2, nums)),
                          f"exact:int-vs-fraction:{prog}", f"{prog}: int control points / weights give other values than the same numbers as Fractions")
    if minimal or cls == "big":
        return
    # ---------------- other representations
    reps = ["float", "npfloat"] + (["int"] if integral else [])
    wc = gen.well_conditioned(U, W)
    ref_nums = [None if x is None else float(ref.fr(x)) for x in nums] if bad is None else None
    for nt in reps:
        o = early[nt] if nt in early else run_program(prog, case, nt)
        if not ctx.check(o.ok, f"{nt}:raises:{prog}:{o.exc_name}", f"{prog} with {nt} numbers raised {o.brief()} (works with Fractions)"):
            continue
        if not wc or ref_nums is None:
            ctx.count("unjudged_float")
            continue
        got = flat(o.value, [])
        ctx.count("float_vs_exact")
        if not ctx.check(len(got) == len(ref_nums), f"{nt}:shape:{prog}", f"{prog} with {nt} numbers returns {len(got)} numbers, {len(ref_nums)} with Fractions"):
            continue
        scale = max([1.0] + [abs(x) for x in ref_nums if x is not None])
        worst = None
        for g, e in zip(got, ref_nums):
            if (g is None) != (e is None):
                worst = (g, e)
                break
            if g is None:
                continue
            try:
                gv = float(g)
            except (TypeError, ValueError):
                worst = (g, e)
                break
            if not abs(gv - e) <= 1e-9 * scale:
                worst = (g, e)
                break
        ctx.check(worst is None, f"{nt}:differs:{prog}", f"{prog} with {nt} numbers gives {worst[0] if worst else ''!r} where the exact run gives {worst[1] if worst else ''!r}")
