"""C15 - curves stay consistent; failed operations are atomic; operands stay untouched.

Invariant-at-a-hook (monitor M1, always attached) driven by hostile random programs over the public Curve API, plus an
explicit check after every step that every *other* live curve (copies, curves built from the same KnotVector object,
operands) is bit-identical to what it was.
"""
import copy as _copy
from fractions import Fraction as F

import numpy as np

from .. import attach, cv, gen, lib, ref
from ..lib import call

PROP = "C15"
PLAN = {"quick": (1024 + 400, 500), "thorough": (16384 + 2000, 5400)}
STEP_BUDGET = 60_000_000  # Intersection of two multi-span cubics legitimately needs ~1e7 loop line events
WITH_REPO_TESTS = True  # thorough tier also runs the repository's own suite under M1 / M3 / M4
RULE = ("case = 2-3 initial curves (two of them built from the same KnotVector object, one a copy) + a program of 5-25 "
        "(quick) / up to 40 (thorough) symbolic public Curve operations, ~30% with invalid arguments (nodes outside, both "
        "end knots, excessive multiplicity, absent knots, impossible removal / reduction, wrong number of control points, "
        "wrong-length or sign-changing weights, strings, operands on other intervals). After every step: consistency of "
        "every live curve, evaluation on its whole interval, unchanged state after a raise, unchanged operands and "
        "siblings. non-trivial = >=1 raised and >=3 successful mutations; distinct = case JSON")
ANCHORS = ["BaseCurve.update", "BaseCurve.apply", "BaseCurve.__copy__", "Curve.knot_insert", "Curve.knot_remove", "Curve.split", "KnotVector.__deepcopy__"]
MIN_COUNTERS = {"steps": 1000, "raised_steps": 150, "mutations_ok": 300, "sibling_checks": 1000}
ASSUMPTIONS = ["apply(matrix) with a malformed matrix and direct mutation of curve.knotvector's KnotVector object are outside the statement"]

PRESERVING = {"insert", "deg_inc", "knot_clean", "degree_clean", "clean", "set_knotvector", "update"}
MUT = ["insert", "remove", "knot_clean", "deg_inc", "deg_dec", "deg_set", "degree_clean", "clean", "fit_curve", "fit_points",
       "fit_function", "set_ctrlpoints", "set_weights", "set_knotvector", "update"]
PURE = ["eval", "split", "join", "arith", "eq", "fraction", "copy", "derivate", "integrate", "projection", "intersection", "str"]


# ---- bounded-exhaustive part: every sequence of 2 (quick) / 3 (thorough) steps of a fixed alphabet on fixed curves
ALPHABET = [
    ("insert", False, [3, 0, 0, 0]), ("insert", True, [3, 0, 0, 0]), ("insert", True, [3, 4, 0, 0]),
    ("remove", False, [0, 0, 0, 0]), ("remove", False, [0, 0, 1, 0]), ("remove", True, [5, 0, 0, 0]),
    ("deg_inc", False, [0, 0, 0, 0]), ("deg_dec", False, [0, 0, 1, 0]), ("deg_dec", True, [0, 2, 0, 0]),
    ("clean", False, [0, 0, 0, 0]), ("set_weights", False, [0, 1, 0, 0]), ("set_ctrlpoints", True, [0, 0, 0, 0]),
    ("split", False, [7, 1, 0, 0]), ("arith", False, [0, 0, 0, 0]), ("eq", False, [0, 0, 0, 0]), ("update", False, [11, 1, 0, 0]),
]
BASES = [
    {"A": {"U": [0, 0, 0, "1/2", 1, 1, 1], "P": [1, 3, -2, 4], "W": None}, "dim": 0},
    {"A": {"U": [-1, -1, -1, 0, 0, 1, 1, 1], "P": [[1, 0], [2, 3], [0, 1], [-2, 2], [3, 3]], "W": [1, 2, "1/2", 3, 1]}, "dim": 2},
    {"A": {"U": [0, 0, "1/3", "2/3", 1, 1], "P": [[0, 0], [1, 2], [3, 1], [4, 4]], "W": None}, "dim": 2},
    # negative control weight, positive weight function 1 - 3u + 5u^2; one elevation gives the weights (1, 0, 2/3, 3)
    {"A": {"U": [0, 0, 0, 1, 1, 1], "P": [[1, 0], [2, 3], [0, 1]], "W": [1, "-1/2", 3]}, "dim": 2},
]


def enum_size(tier):
    return len(BASES) * len(ALPHABET) ** (2 if tier == "quick" else 3)


ENUMERATED = {"quick": (enum_size("quick"), "every sequence of 2 steps of a 16-step alphabet (valid and invalid requests) on 4 fixed groups of curves sharing a KnotVector"),
              "thorough": (enum_size("thorough"), "every sequence of 3 steps of a 16-step alphabet (valid and invalid requests) on 4 fixed groups of curves sharing a KnotVector")}


def enum_case(idx, tier):
    L = 2 if tier == "quick" else 3
    n = len(ALPHABET)
    base = BASES[idx // n ** L]
    k = idx % n ** L
    steps = []
    for pos in range(L):
        op, bad, r = ALPHABET[k % n]
        steps.append({"op": op, "t": [0, 0, 3][pos % 3], "o": 1, "bad": bad, "r": r})
        k //= n
    A = dict(base["A"], numtype="frac")
    npts = len(A["P"])
    dim = base["dim"]
    BP = [i - 1 for i in range(npts)] if dim == 0 else [[i, 1 - i] for i in range(npts)]
    C = {"U": [A["U"][0], A["U"][0], A["U"][-1], A["U"][-1]], "P": [1, 2] if dim == 0 else [[0, 1], [2, 0]], "W": None, "numtype": "frac"}
    return {"A": A, "B_P": BP, "C": C, "numtype": "frac", "steps": steps, "dim": dim, "enumerated": True}


def gen_case(rng, idx, tier):
    if idx < enum_size(tier):
        return enum_case(idx, tier)
    nt = rng.choice(["frac", "frac", "float"])
    dim = rng.choice([0, 2, 2])
    A = gen.curve(rng, pmax=3, nintmax=2, dim=dim, wratio=9)
    n = len(A["P"])
    negw = False
    if A["W"] is not None and n >= 3 and rng.random() < 0.5:
        # a negative control weight under a weight function that stays positive: a valid curve whose refined weight
        # vector may contain 0 (elevating w = (1, -1/2, 3) once gives (1, 0, 2/3, 3))
        Wn = list(A["W"])
        i = rng.randrange(1, n - 1)
        Wn[i] = -Wn[i - 1] * rng.choice([F(1, 2), F(1, 2), F(1, 3), F(1, 4), F(1)])
        pA = ref.degree(A["U"])
        lo, hi = A["U"][0], A["U"][-1]
        if min(sum(x * y for x, y in zip(ref.basis(A["U"], pA, lo + (hi - lo) * F(k, 240))[:n], Wn)) for k in range(241)) >= F(1, 10):
            A["W"] = Wn
            negw = True
    B_P = gen.points(rng, n, dim)
    C = gen.curve(rng, pmax=2, nintmax=2, dim=dim, itv=(A["U"][0], A["U"][-1]), wratio=9)
    nsteps = rng.randint(5, 25) if tier == "quick" else rng.randint(10, 40)
    steps = []
    for _ in range(nsteps):
        op = rng.choice(MUT) if rng.random() < 0.6 else rng.choice(PURE)
        steps.append({"op": op, "t": rng.randrange(64), "o": rng.randrange(64), "bad": rng.random() < 0.3, "r": [rng.randrange(10**6) for _ in range(4)]})
    d = {"A": cv.enc_curve(A, nt), "B_P": lib.enc(B_P), "C": cv.enc_curve(C, nt), "numtype": nt, "steps": steps, "dim": dim}
    if negw:
        d["negw"] = True
    return d


def whole_interval_ok(ctx, c, tag):
    if c.ctrlpoints is None:
        return
    ks = list(c.knotvector.knots)
    pts = list(ks)
    for a, b in zip(ks, ks[1:]):
        pts.append((a + b) / 2)
    o = call(c.eval, pts)
    ctx.check(o.ok and len(o.value) == len(pts), f"consistency:evaluates:{tag}", f"after {tag}: the curve does not evaluate on its whole interval: {o.brief()}")


def run_case(case, ctx):
    from compmec.nurbs import Curve, Derivate, Integrate, Intersection, KnotVector, Projection

    nt = case["numtype"]
    exact = nt == "frac"
    dim = case["dim"]
    U, P, W, _ = cv.dec_curve(case["A"])
    kv = KnotVector(lib.nums(U, nt))
    if case.get("negw"):
        o = call(Curve, kv, lib.mk_points(P, nt), lib.nums(W, nt))
        if not o.ok:  # the library may refuse weights it cannot certify as root free
            ctx.count("negative_weight_refused")
            return
        ctx.count("negative_weight_curves")
    a0 = Curve(kv, lib.mk_points(P, nt), None if W is None else lib.nums(W, nt))
    b0 = Curve(kv, lib.mk_points(lib.dec(case["B_P"]), nt))  # same KnotVector object
    UC, PC, WC, _ = cv.dec_curve(case["C"])
    c0 = lib.mk_curve(UC, PC, WC, nt)
    e0 = Curve(kv)  # no control points yet, same KnotVector object as a0 and b0
    pool = [a0, b0, c0, _copy.deepcopy(a0), e0]
    ctx.cls(f"{nt}|dim{dim}|p{a0.degree}|{'rat' if W is not None else 'poly'}")
    raised = okmut = 0

    def num(x):
        return lib.num(F(x), nt)

    for st in case["steps"]:
        op, bad, r = st["op"], st["bad"], st["r"]
        t = pool[st["t"] % len(pool)]
        other = pool[st["o"] % len(pool)]
        if t.ctrlpoints is None and op not in ("set_ctrlpoints", "set_knotvector", "insert", "deg_inc", "copy", "eq", "str"):
            continue
        snaps = [(c, lib.curve_digest(c)) for c in pool]
        pre = lib.curve_digest(t)
        rc_before = None
        if op in PRESERVING and t.ctrlpoints is not None:
            try:
                rc_before = lib.to_rc(t)
            except Exception:
                rc_before = None
        ks = list(t.knotvector.knots)
        umin, umax = ks[0], ks[-1]
        p = t.degree
        span = umax - umin
        # a new node must respect the separation bound of DESIGN 4: equal to a knot, or >= 1e-3 of the interval away
        # from every knot (a value computed in float arithmetic can land one ulp beside an existing knot)
        newnode = None
        for k_ in range(6):
            cand = umin + span * num(F(1 + (r[0] + 7 * k_) % 28, 30))
            if all(cand == kk or abs(cand - kk) >= span / 1000 for kk in ks):
                newnode = cand
                break
        if newnode is None:
            continue
        mutating = op in MUT
        res = None
        if op == "insert":
            # 13-16 distinct new nodes for the long requests (one call): valid as a whole, or spoilt by one node placed in
            # the middle / at the end
            long_ = []
            for i_ in range(1, 40):
                cand = umin + span * num(F(i_, 41))
                if all(abs(cand - kk) >= span / 1000 for kk in ks):
                    long_.append(cand)
                if len(long_) == 13 + r[3] % 4:
                    break
            if bad:
                arg = [[umin, umax], [umax + 1], [umin], ["a"], [newnode] * (p + 2), [newnode, umin - span],
                       long_ + [umax + 1], long_[:9] + [umin - span] + long_[9:], long_ + [long_[-1]] * (p + 1)][r[1] % 9]
            else:
                arg = [[newnode], [newnode] * (1 + r[1] % (p + 1)), [newnode], long_][r[2] % 4]
            o = call(t.knot_insert, arg)
        elif op == "remove":
            if bad or len(ks) <= 2:
                arg = [[newnode], [umin], [umin, umax], [umax + 1], ["a"]][r[1] % 5]
                o = call(t.knot_remove, arg)
            else:
                k = ks[1:-1][r[1] % (len(ks) - 2)]
                o = call(t.knot_remove, [k], **({"tolerance": None} if r[2] % 2 else {}))
        elif op == "knot_clean":
            o = call(t.knot_clean, *([["a"]] if bad and r[1] % 2 else []))
        elif op == "deg_inc":
            o = call(t.degree_increase, [0, -1, 1.5, "a"][r[1] % 4] if bad else 1 + r[1] % 2)
        elif op == "deg_dec":
            if bad:
                o = call(t.degree_decrease, [0, -1, p + 1, "a"][r[1] % 4])
            else:
                o = call(t.degree_decrease, 1, **({"tolerance": None} if r[2] % 2 else {}))
        elif op == "deg_set":
            o = call(setattr, t, "degree", [-1, "a", 2.5, None][r[1] % 4] if bad else max(0, p + [-1, 0, 1, 2][r[1] % 4]))
        elif op == "degree_clean":
            o = call(t.degree_clean)
        elif op == "clean":
            o = call(t.clean)
        elif op == "fit_curve":
            src = other if not bad else [1, "a", None][r[1] % 3]
            if not bad and (other.ctrlpoints is None or other is t):
                continue
            o = call(t.fit_curve, src)
            if not bad and tuple(other.knotvector.limits) != (umin, umax):
                pass  # no limits check in fit_curve itself: outcome not judged, atomicity still is
        elif op == "fit_points":
            npts = t.npts
            cnt = max(0, npts - 1 - r[1] % 2) if bad else npts + r[1] % 3
            zs = [umin + span * num(F(i, max(1, cnt - 1))) for i in range(cnt)] if cnt > 1 else [umin][:cnt]
            if dim == 0:
                pts = [num(F((i * 7 + r[2]) % 11 - 5)) for i in range(cnt)]
            else:
                pts = [np.array([num(F((i * 7 + r[2]) % 11 - 5)), num(F(i % 3))], dtype=object if exact else "float64") for i in range(cnt)]
            o = call(t.fit_points, pts, zs)
        elif op == "fit_function":
            if bad:
                o = call(t.fit_function, lambda u: "a")
            elif dim == 0:
                o = call(t.fit_function, lambda u: 1 + u * u)
            else:
                o = call(t.fit_function, lambda u: np.array([1 + u, u * u], dtype=object if exact else "float64"))
        elif op == "set_ctrlpoints":
            npts = t.npts
            if bad:
                val = [[num(1)] * (npts + 1), [num(1)] * max(0, npts - 1), "abc", 5][r[1] % 4]
            else:
                val = list(b0.ctrlpoints) if (b0.ctrlpoints is not None and b0.npts == npts and r[1] % 2) else ([num(i) for i in range(npts)] if dim == 0 else [np.array([num(i), num(1)], dtype=object if exact else "float64") for i in range(npts)])
            o = call(setattr, t, "ctrlpoints", val)
        elif op == "set_weights":
            npts = t.npts
            if bad:
                val = [[num(1)] * (npts + 1), [num(1)] + [num(-1)] * (npts - 1) if npts > 1 else [num(1), num(1)], "abc", [num(1)] * max(0, npts - 1) + ["a"]][r[1] % 4]
            else:
                val = None if r[1] % 3 == 0 else [num(F(1 + (i + r[2]) % 3, 1 + i % 2)) for i in range(npts)]
            o = call(setattr, t, "weights", val)
        elif op in ("set_knotvector", "update"):
            cur = list(t.knotvector)
            if bad:
                val = [[k + 1 for k in cur], "abc", [umin, umin], None, cur[:-1]][r[1] % 5]
            else:
                val = sorted(cur + [newnode]) if r[1] % 2 else sorted(cur + ks)
            o = call(setattr, t, "knotvector", val) if op == "set_knotvector" else call(t.update, val)
        elif op == "eval":
            arg = [umin - 1, "a", None, [umin, umax + 1]][r[1] % 4] if bad else [newnode, [umin, newnode, umax], umax][r[1] % 3]
            o = call(t.eval, arg) if r[2] % 2 else call(t, arg)
        elif op == "split":
            o = call(t.split, [umax + 1] if bad else ([newnode] if r[1] % 2 else None))
            if o.ok and not bad:
                res = o.value[r[2] % len(o.value)]
        elif op == "join":
            if other.ctrlpoints is None:
                continue
            if bad:
                o = call(lambda: t | other)  # same interval: max(A) != min(B)
            else:
                sh = _copy.deepcopy(other)
                o2 = call(setattr, sh, "knotvector", [k + (umax - sh.knotvector[0]) for k in sh.knotvector])
                # shifting through the setter is refused (different limits): build the shifted curve directly
                shifted = call(lambda: Curve([k + (umax - other.knotvector[0]) for k in other.knotvector], list(other.ctrlpoints), other.weights))
                if not shifted.ok:
                    continue
                o = call(lambda: t | shifted.value)
        elif op == "arith":
            if other.ctrlpoints is None:
                continue
            which = r[1] % 6
            if bad:
                shifted = call(lambda: Curve([k + 1 for k in other.knotvector], list(other.ctrlpoints), other.weights))
                if not shifted.ok:
                    continue
                o = call(lambda: t + shifted.value)
            elif which == 0:
                o = call(lambda: t + other)
            elif which == 1:
                o = call(lambda: t - other)
            elif which == 2:
                o = call(lambda: -t)
            elif which == 3:
                o = call(lambda: num(2) * t)
            elif which == 4:
                o = call(lambda: t / num(3))
            else:
                o = call(lambda: t + num(1))
        elif op == "eq":
            o = call(lambda: (t == other, t != other, t == 3))
        elif op == "fraction":
            o = call(t.fraction)
        elif op == "copy":
            o = call(_copy.deepcopy if r[1] % 2 else _copy.copy, t)
            if o.ok:
                res = o.value
                ctx.check(res is not t and lib.curve_digest(res) == pre, "copy:not-equal", "copy differs from the original")
        elif op == "derivate":
            o = call(Derivate, t)
        elif op == "integrate":
            o = call(Integrate.scalar, t)
        elif op == "projection":
            if dim != 2:
                continue
            o = call(Projection.point_on_curve, (1.0, 0.5), t)
        elif op == "intersection":
            if dim != 2 or other.ctrlpoints is None:
                continue
            o = call(Intersection.curve_and_curve, t, other)
        elif op == "str":
            o = call(str, t)
        else:
            raise ValueError(op)
        ctx.count("steps")
        post = lib.curve_digest(t)
        if not o.ok:
            raised += 1
            ctx.count("raised_steps")
            if isinstance(o.exc, lib.StepBudgetExceeded):
                ctx.count(f"step_budget_hits:{op}")  # termination belongs to C19
                return
            ctx.check(post == pre, f"atomic:{op}:{o.exc_name}", f"{op} raised {o.brief()} but the curve changed", before=lib.short(pre, 300), after=lib.short(post, 300))
        else:
            if mutating:
                okmut += 1
                ctx.count("mutations_ok")
                # whatever happened before in this program: the library's evaluation must agree with the observable
                # state, and function-preserving operations must preserve the function
                if t.ctrlpoints is not None and attach.curve_invariant(t) is None:
                    try:
                        rc_after = lib.to_rc(t)
                    except Exception:
                        rc_after = None
                    if rc_after is not None and (exact or gen.well_conditioned(rc_after.U, rc_after.W)):
                        ctx.count("eval_vs_state_checks")
                        cv.lib_eval_matches(ctx, t, rc_after, exact, f"sequence:{op}", n=2, rel=1e-8)
                        if rc_before is not None and not (bad and op in ("set_knotvector", "update")):
                            d = cv.function_diff(rc_before, rc_after, exact, 1e-8)
                            if d is not None and op in ("knot_clean", "degree_clean", "clean"):
                                from .c05 import deviation_ok

                                deviation_ok(ctx, rc_before, rc_after, F(1, 10**9), exact, f"sequence:function:{op}", f"{op} in a sequence changed the curve beyond its tolerance ({d})")
                            else:
                                ctx.check(d is None, f"sequence:function:{op}", f"{op} in a sequence changed the curve: {d}")
            else:
                ctx.check(post == pre, f"pure-modified:{op}", f"non mutating {op} changed its receiver", before=lib.short(pre, 300), after=lib.short(post, 300))
        # nobody else moved
        for c, d in snaps:
            if c is t:
                continue
            ctx.count("sibling_checks")
            ctx.check(lib.curve_digest(c) == d, f"sibling-modified:{op}", f"{op} on one curve changed another live curve (operand, copy or curve sharing the KnotVector)", before=lib.short(d, 300), after=lib.short(lib.curve_digest(c), 300))
        # consistency of everything alive
        for c in pool + ([res] if res is not None and hasattr(res, "_BaseCurve__knotvector") else []):
            inv = attach.curve_invariant(c)
            ctx.check(inv is None, f"consistency:{op}", f"after {op}: {inv}")
        whole_interval_ok(ctx, t, op)
        if res is not None and hasattr(res, "_BaseCurve__knotvector") and len(pool) < 8:
            pool.append(res)
    ctx.mark_nontrivial((raised >= 1 and okmut >= 3) or (case.get("enumerated") and raised + okmut >= 1))
