"""C13 - curve equality means equality as functions, independent of representation."""
import copy as _copy
from fractions import Fraction as F

from .. import cv, gen, lib, ref
from ..lib import call

PROP = "C13"
PLAN = {"quick": (1400, 400), "thorough": (12000, 3600)}
LARGE = (0.03, 20)  # (share, largest size) of the large class of gen.kv: 17+ control points, degree up to 8
STEP_BUDGET = 20_000_000  # loop line events per outermost call: ten times the default, for the large class
RULE = ("case = (A, relation, order); B is built from A by the reference model: identical copy, knots inserted, degree "
        "elevated, both, polynomial <-> rational with constant weights, control point perturbed by >=1e-3 (unequal) or "
        "<=1e-13 (equal), other weights (unequal), another interval, an unrelated curve; the quadruple A==B, B==A, A!=B, "
        "B!=A is compared with the exact truth, plus reflexivity and comparison with non-curves. non-trivial = relation "
        "other than identical on a curve with an interior knot or weights; distinct = case JSON")
ANCHORS = ["BaseCurve.__eq__", "BaseCurve.__ne__", "BaseCurve.update", "ImmutableKnotVector.__or__"]
MIN_COUNTERS = {"quadruples": 100, "expected_equal": 40, "expected_unequal": 40}
ASSUMPTIONS = ["perturbations stay four orders of magnitude away from the built-in 1e-9 tolerance",
               "'same function' rational cases are refinements in homogeneous form or constant weights"]

RELATIONS = ["same", "insert", "elevate", "both", "ratconst", "perturb-big", "perturb-small", "weights", "interval", "unrelated", "refined-perturbed",
             "cross-refined", "mult-swapped", "perturb-large-scale"]


def refine(rc, rng, how):
    out = rc
    if how in ("elevate", "both"):
        out = ref.elevate(out, rng.choice([1, 1, 2]))
    if how in ("insert", "both"):
        a, b = out.U[0], out.U[-1]
        for _ in range(rng.randint(1, 3)):
            k = a + (b - a) * F(rng.randint(1, 29), 30)
            if ref.mult(out.U, k) < out.p + 1:
                out = ref.boehm_insert(out, k)
    return out


def rc_to_case(rc, scal):
    P = [pt[0] for pt in rc.P] if scal else [list(pt) for pt in rc.P]
    return {"U": rc.U, "P": P, "W": rc.W}


def gen_case(rng, idx, tier):
    nt = rng.choice(["frac", "frac", "float"])
    A = gen.curve(rng, pmax=3, nintmax=2, wratio=9)
    scal = not isinstance(A["P"][0], list)
    ra = lib.case_rc(A["U"], A["P"], A["W"])
    rel = RELATIONS[idx % len(RELATIONS)]
    equal = True
    if rel == "same":
        B = dict(A)
    elif rel in ("insert", "elevate", "both"):
        B = rc_to_case(refine(ra, rng, rel), scal)
    elif rel == "ratconst":
        c = F(rng.choice([1, 2, 3]), rng.choice([1, 2]))
        if A["W"] is None:
            B = dict(A, W=[c] * len(A["P"]))
        else:
            B = dict(A, W=[w * c for w in A["W"]])
        if rng.random() < 0.5:
            B = rc_to_case(refine(lib.case_rc(B["U"], B["P"], B["W"]), rng, "insert"), scal)
    elif rel in ("perturb-big", "perturb-small", "refined-perturbed"):
        base = refine(ra, rng, rng.choice(["insert", "elevate"])) if rel == "refined-perturbed" else ra
        B = rc_to_case(base, scal)
        i = rng.randrange(len(B["P"]))
        eps = F(1, 10**13) if rel == "perturb-small" else F(rng.choice([1, 5, 100]), 1000)
        if scal:
            B["P"] = list(B["P"])
            B["P"][i] = B["P"][i] + eps
        else:
            B["P"] = [list(p) for p in B["P"]]
            B["P"][i][rng.randrange(len(B["P"][i]))] += eps
        equal = rel == "perturb-small"
    elif rel == "perturb-large-scale":
        # the tolerance is absolute (1e-9 on control points): on coordinates of size 1e3..1e6 a change of 1e-7..1e-5 is
        # still a different curve
        sc = F(10) ** rng.choice([3, 6])
        scale = (lambda p: [c * sc for c in p]) if not scal else (lambda p: p * sc)
        A = dict(A, P=[scale(p) for p in A["P"]])
        ra = lib.case_rc(A["U"], A["P"], A["W"])
        base = refine(ra, rng, "insert") if rng.random() < 0.4 else ra
        B = rc_to_case(base, scal)
        i = rng.randrange(len(B["P"]))
        eps = F(1, 10 ** rng.choice([5, 6, 7]))
        if scal:
            B["P"] = list(B["P"])
            B["P"][i] = B["P"][i] + eps
        else:
            B["P"] = [list(p) for p in B["P"]]
            B["P"][i][rng.randrange(len(B["P"][i]))] += eps
        nt = "frac"
        equal = False
    elif rel in ("cross-refined", "mult-swapped"):
        # both operands are refinements of one curve, raised at two different existing knots: same degree, same number
        # of control points, same distinct knots, different multiplicities
        ks = ref.distinct(ra.U)[1:-1]
        cands = [k for k in ks if ref.mult(ra.U, k) < ra.p + 1]
        if len(cands) < 2:
            return None
        k1, k2 = rng.sample(cands, 2)
        X, Y = ref.boehm_insert(ra, k1), ref.boehm_insert(ra, k2)
        A = rc_to_case(X, scal)
        if rel == "cross-refined":
            B = rc_to_case(Y, scal)
        else:
            # X's control points and weights on Y's knot vector: another function (decided at run time)
            B = dict(A, U=Y.U)
            equal = None
    elif rel == "weights":
        n = len(A["P"])
        if n < 2:
            return None
        W = list(A["W"]) if A["W"] is not None else [F(1)] * n
        j = rng.randrange(n)
        W[j] = W[j] * 2
        # make sure the function really changes: points must not be all equal
        if len(set(map(str, A["P"]))) == 1:
            return None
        B = dict(A, W=W)
        equal = None  # decided by the reference model at run time
    elif rel == "interval":
        B = dict(A, U=[k + F(1, 2) for k in A["U"]])
        equal = False
    else:
        B = gen.curve(rng, pmax=3, nintmax=2, itv=(A["U"][0], A["U"][-1]), dim=0 if scal else len(A["P"][0]), wratio=9)
        equal = None
    return {"A": cv.enc_curve(A, nt), "B": cv.enc_curve(B, nt), "numtype": nt, "relation": rel, "equal": equal, "swap": rng.random() < 0.5}


def run_case(case, ctx):
    nt = case["numtype"]
    bA = cv.build(ctx, case["A"])
    bB = cv.build(ctx, case["B"])
    if bA is None or bB is None:
        return
    (A, ra, exact), (B, rb, _) = bA, bB
    rel = case["relation"]
    truth = case["equal"]
    if truth is None or (not exact and rel not in ("perturb-small",)):
        # decide by the reference model on the numbers the library actually received
        if ra.limits != rb.limits or ra.dim != rb.dim:
            truth = False
        else:
            same = ref.same_function(ra, rb)
            if same and rel in ("weights", "mult-swapped"):
                # same function through different (non proportional) weights, e.g. coincident control points:
                # equality of rational curves is only promised up to refinement, not up to re-weighting
                ctx.count("skipped_reweighted_same_function")
                return
            if same:
                truth = True
            else:
                # far from the tolerance? (float images of equal curves differ by rounding only)
                d = cv.function_diff(ra, rb, False, 1e-12)
                if d is None:
                    truth = True
                else:
                    far = cv.function_diff(ra, rb, False, 1e-5)
                    if far is None:
                        ctx.count("skipped_near_tolerance")
                        return
                    truth = False
    if not exact and not (gen.well_conditioned(ra.U, ra.W) and gen.well_conditioned(rb.U, rb.W)):
        ctx.count("unjudged_float")
        return
    rational = ra.W is not None or rb.W is not None
    kind = "rat" if rational else "poly"
    ctx.cls(f"{rel}|{kind}|{nt}|pA{ra.p}|pB{rb.p}|{'eq' if truth else 'ne'}")
    ctx.mark_nontrivial(rel != "same" and (len(ra.breaks()) > 2 or rational or len(rb.breaks()) > 2))
    ctx.count("quadruples")
    ctx.count("expected_equal" if truth else "expected_unequal")
    X, Y = (B, A) if case["swap"] else (A, B)
    preX, preY = lib.curve_digest(X), lib.curve_digest(Y)
    res = {}
    for name, fn in (("X==Y", lambda: X == Y), ("Y==X", lambda: Y == X), ("X!=Y", lambda: X != Y), ("Y!=X", lambda: Y != X)):
        o = call(fn)
        if not ctx.check(o.ok, f"eq:raises:{o.exc_name}:{kind}:{rel}", f"{name} raised {o.brief()}"):
            return
        res[name] = o.value
    ctx.check(lib.curve_digest(X) == preX and lib.curve_digest(Y) == preY, "eq:operand-modified", "comparison modified an operand")
    coarse_left = (len(lib.curve_state(X)[0]) < len(lib.curve_state(Y)[0]))
    side = "coarse-left" if coarse_left else "coarse-right"
    ctx.check(all(isinstance(v, (bool,)) or type(v).__name__ == "bool_" for v in res.values()), "eq:not-bool", f"comparison returned {[type(v).__name__ for v in res.values()]}")
    ctx.check(bool(res["X==Y"]) == truth, f"eq:wrong:{kind}:{rel}:{'expected-equal' if truth else 'expected-unequal'}:{side}",
              f"X == Y is {res['X==Y']} but the curves are {'the same' if truth else 'different'} functions (relation {rel})")
    ctx.check(bool(res["Y==X"]) == truth, f"eq:wrong:{kind}:{rel}:{'expected-equal' if truth else 'expected-unequal'}:{'coarse-right' if coarse_left else 'coarse-left'}",
              f"Y == X is {res['Y==X']} but the curves are {'the same' if truth else 'different'} functions (relation {rel})")
    ctx.check(bool(res["X==Y"]) == bool(res["Y==X"]), f"eq:asymmetric:{kind}", f"X == Y is {res['X==Y']} but Y == X is {res['Y==X']}")
    ctx.check(bool(res["X!=Y"]) == (not bool(res["X==Y"])) and bool(res["Y!=X"]) == (not bool(res["Y==X"])), "eq:ne-not-negation", f"!= is not the negation of ==: {res}")
    # reflexive, copies, non curves
    for C in (X, Y):
        o = call(lambda: C == C)
        ctx.check(o.ok and bool(o.value) is True, f"eq:not-reflexive:{kind}", f"C == C gave {o.value if o.ok else o.brief()}")
        o = call(lambda: C == _copy.deepcopy(C))
        ctx.check(o.ok and bool(o.value) is True, f"eq:copy-unequal:{kind}", f"C == deepcopy(C) gave {o.value if o.ok else o.brief()}")
    for other in (1, "a", None, [1, 2], (0, 0, 1, 1), 2.5):
        o = call(lambda: X == other)
        ctx.check(o.ok and bool(o.value) is False, "eq:non-curve", f"curve == {other!r} gave {o.value if o.ok else o.brief()}")
        o = call(lambda: X != other)
        ctx.check(o.ok and bool(o.value) is True, "eq:non-curve-ne", f"curve != {other!r} gave {o.value if o.ok else o.brief()}")
