"""C18 - generators and affine maps produce exactly the advertised knot vectors."""
from fractions import Fraction as F

import numpy as np

from .. import gen, lib, ref
from ..lib import call

PROP = "C18"
PLAN = {"quick": (3200, 300), "thorough": (80000, 3000)}
LARGE = (0.03, 64)  # (share, largest size) of the large class of gen.kv: 17+ control points, degree up to 8
RULE = ("cases: generator = (bezier | integer | uniform | random | weight, degree 0..5, npts up to 60 (quick) / 400 "
        "(thorough), cls in int / float / Fraction), random() both with seeded draws and with weight vectors injected at "
        "the numpy RNG boundary (all 1, all 999, totals whose float reciprocal does not round-trip); affine = (vector, "
        "shift, scale, normalize) with multiplicity and exact-image checks and reparametrisation invariance of basis "
        "functions and curves; invalid generator arguments. non-trivial = npts > degree+1 or an affine map of a vector "
        "with interior knots; distinct = case JSON")
ANCHORS = ["GeneratorKnotVector.bezier", "GeneratorKnotVector.integer", "GeneratorKnotVector.uniform", "GeneratorKnotVector.random",
           "GeneratorKnotVector.weight", "KnotVector.shift", "KnotVector.scale", "KnotVector.normalize"]
MIN_COUNTERS = {"generated": 500, "random_injected": 50, "affine": 200, "invariance_checks": 200}
ASSUMPTIONS = ["float spacing judged to 1e-12 relative; limits == (0, 1) judged exactly for every number class"]

CLS = {"int": int, "float": float, "Fraction": F}
BAD_TOTALS = [49, 98, 93, 107, 161, 187, 196, 391]  # 1/x*x != 1 in binary64


def gen_case(rng, idx, tier):
    r = idx % 8
    nmax = 60 if tier == "quick" else 400
    if r < 5:
        kind = ["bezier", "integer", "uniform", "random", "weight"][r]
        p = rng.randint(0, 5)
        npts = p + 1 + (rng.randint(0, 8) if rng.random() < 0.6 else rng.randint(0, nmax - p - 1))
        cls = rng.choice(["int", "float", "Fraction"])
        d = {"kind": "gen", "gen": kind, "p": p, "npts": npts, "cls": cls}
        if kind == "random":
            m = npts - p
            mode = rng.choice(["seed", "seed", "ones", "max", "badtotal", "mixed"])
            if mode == "seed":
                d["npseed"] = rng.randrange(2**31)
            elif mode == "ones":
                d["inject"] = [1] * m
            elif mode == "max":
                d["inject"] = [999] * m
            elif mode == "badtotal":
                tot = rng.choice(BAD_TOTALS)
                if m > tot:
                    d["inject"] = [1] * m
                else:
                    cuts = sorted(rng.sample(range(1, tot), m - 1)) if m > 1 else []
                    d["inject"] = [b - a for a, b in zip([0] + cuts, cuts + [tot])]
            else:
                d["inject"] = [rng.choice([1, 2, 500, 998, 999]) for _ in range(m)]
            if cls == "int":
                d["cls"] = "float"
        if kind == "weight":
            m = npts - p
            d["weights"] = lib.enc([F(rng.randint(1, 9), rng.choice([1, 1, 2, 3])) for _ in range(m)] if cls == "Fraction" else [F(rng.randint(1, 9)) for _ in range(m)])
        return d
    if r == 5:
        return {"kind": "badgen", "gen": rng.choice(["bezier", "integer", "uniform", "random", "weight"]), "how": rng.choice(["negdeg", "small", "floatdeg", "strdeg", "equal"])}
    U = gen.kv(rng, pmax=4, nintmax=4)
    nt = rng.choice(["frac", "frac", "float", "int"]) if all(k.denominator == 1 for k in U) else rng.choice(["frac", "frac", "float"])
    p, n = ref.wellformed(U)
    a = F(rng.randint(-20, 20), rng.choice([1, 2, 3, 7]))
    s = F(rng.randint(1, 12), rng.randint(1, 12))
    if nt == "frac" and rng.random() < 0.25:  # exact class only: the int class is probed with float parameters
        # "all shifts and positive scales": exact arithmetic has no conditioning, so shifts of 1e5..1e12 (knot spacing
        # 1e-6..1e-13 of the knot values) and scales up to 1e6 are in the domain. Small scales are not: they bring
        # distinct knots closer than the library's 1e-6 merge threshold (separation bound of DESIGN section 4)
        r2 = rng.random()
        if r2 < 0.5:
            a = rng.choice([-1, 1]) * F(10) ** rng.choice([5, 7, 9, 12]) + a
        elif r2 < 0.8:
            s = s * F(10) ** rng.choice([3, 4, 6])
        else:
            # a scale that brings distinct knots closer than the library's absolute knot-identity thresholds (1e-6 in
            # `knots`, 1e-9 in `mult`): inside "all positive scales"; see known_findings.json
            s = s * F(10) ** rng.choice([-7, -9, -11])
    return {"kind": "affine", "U": lib.enc(U), "numtype": nt, "a": lib.enc(a),
            "s": lib.enc(s), "P": lib.enc(gen.points(rng, n, rng.choice([0, 2]))),
            "W": lib.enc(gen.weights(rng, n, 9) if rng.random() < 0.3 else None), "op": rng.choice(["shift", "scale", "both", "normalize", "normalize"])}


class _Remap:
    """reports every failed comparison of a case under one mechanism key (the original key goes into the message)"""

    def __init__(self, ctx, key):
        self._ctx, self._key = ctx, key

    def check(self, cond, key, msg, **kw):
        return self._ctx.check(cond, self._key, f"{msg} [{key}]", **kw)

    def __getattr__(self, name):
        return getattr(self._ctx, name)


def check_generated(ctx, kv, kind, p, npts, cls, spacing=None):
    L = list(kv)
    tag = f"{kind}:{cls}"
    try:
        Lq = [ref.fr(x) for x in L]
    except (TypeError, ValueError):
        ctx.check(False, f"gen:non-numeric:{tag}", f"{kind} produced non numeric knots")
        return
    wf = ref.wellformed(Lq)
    if not ctx.check(wf is not None, f"gen:malformed:{tag}", f"{kind}({p},{npts},{cls}) is not a clamped vector: {lib.short(L)}"):
        return
    ctx.check(wf == (p, npts) and kv.degree == p and kv.npts == npts, f"gen:degree-npts:{tag}", f"{kind}({p},{npts}) has degree/npts {wf}")
    ks = ref.distinct(Lq)
    ctx.check(all(ref.mult(Lq, k) == 1 for k in ks[1:-1]), f"gen:interior-not-simple:{tag}", f"{kind}: repeated interior knot")
    ctx.check(len(ks) == npts - p + 1, f"gen:knot-count:{tag}", f"{kind}: {len(ks)} distinct knots, expected {npts - p + 1}")
    if cls == "Fraction":
        ctx.check(all(isinstance(x, F) for x in L), f"gen:type:{tag}", f"{kind}(cls=Fraction) knots have types {sorted(set(type(x).__name__ for x in L))}")
    if cls == "float" and kind != "uniform":
        ctx.check(all(isinstance(x, float) for x in L), f"gen:type:{tag}", f"{kind}(cls=float) knots have types {sorted(set(type(x).__name__ for x in L))}")
    if kind in ("bezier", "uniform", "random"):
        lim = tuple(kv.limits)
        ctx.check(lim == (0, 1) and Lq[0] == 0 and Lq[-1] == 1, f"gen:limits:{tag}", f"{kind}({p},{npts},{cls}).limits == {lim}, not exactly (0, 1)")
    if kind in ("integer", "uniform"):
        steps = [b - a for a, b in zip(ks, ks[1:])]
        if cls in ("int", "Fraction") and not (kind == "uniform" and cls == "int"):
            ctx.check(len(set(steps)) == 1, f"gen:spacing:{tag}", f"{kind}: knot spacing not constant: {lib.short(steps)}")
        else:
            h = 1 / F(len(steps)) if kind == "uniform" else F(1)
            ctx.check(all(abs(s - h) <= F(1, 10**12) for s in steps), f"gen:spacing:{tag}", f"{kind}: knot spacing not {h}")
        if kind == "integer":
            ctx.check(ks == [F(i) for i in range(len(ks))], f"gen:integer-values:{tag}", f"integer(): knots {lib.short(ks)}")
    if spacing is not None:
        steps = [b - a for a, b in zip(ks, ks[1:])]
        ctx.check(steps == spacing and ks[0] == 0, f"gen:weight-spacing:{tag}", f"weight(): spacing {lib.short(steps)} != weights {lib.short(spacing)}")


def run_case(case, ctx):
    from compmec.nurbs import Curve, Function, GeneratorKnotVector, KnotVector

    G = GeneratorKnotVector
    if case["kind"] == "gen":
        kind, p, npts, cls = case["gen"], case["p"], case["npts"], case["cls"]
        ctx.cls(f"gen|{kind}|{cls}|p{p}|n{'small' if npts - p < 10 else 'large'}")
        ctx.mark_nontrivial(npts > p + 1)
        ctx.count("generated")
        c = CLS[cls]
        spacing = None
        if kind == "bezier":
            o = call(G.bezier, p, c)
            npts = p + 1
        elif kind == "integer":
            o = call(G.integer, p, npts, c)
        elif kind == "uniform":
            o = call(G.uniform, p, npts, c)
        elif kind == "weight":
            ws = [lib.num(x, "frac" if cls == "Fraction" else ("float" if cls == "float" else "int")) for x in lib.dec(case["weights"])]
            spacing = [ref.fr(w) for w in ws]
            o = call(G.weight, p, ws)
        else:
            if "inject" in case:
                ctx.count("random_injected")
                inj = np.array(case["inject"], dtype="int64")
                real = np.random.randint
                seen = {}

                def fake(low, high=None, size=None, *a, **k):
                    seen["args"] = (low, high, size)
                    return inj.copy()

                np.random.randint = fake
                try:
                    o = call(G.random, p, npts, c)
                finally:
                    np.random.randint = real
                ctx.check(seen.get("args") is not None, "gen:random:rng-not-used", "random() did not draw from numpy.random.randint (injection point moved)")
            else:
                np.random.seed(case["npseed"])
                o = call(G.random, p, npts, c)
        if not ctx.check(o.ok, f"gen:raises:{kind}:{cls}:{o.exc_name}", f"{kind}({p},{npts},{cls}) raised {o.brief()}"):
            return
        kv = o.value
        if not ctx.check(type(kv).__name__ == "KnotVector", f"gen:result-type:{kind}", f"{kind} returned {type(kv).__name__}"):
            return
        check_generated(ctx, kv, kind, p, npts, cls, spacing)
        return
    if case["kind"] == "badgen":
        kind, how = case["gen"], case["how"]
        ctx.cls(f"badgen|{kind}|{how}")
        args = {"negdeg": (-1, 3), "small": (3, 2), "floatdeg": (1.0, 3), "strdeg": ("a", 3), "equal": (2, 2)}[how]
        if kind == "bezier":
            if how in ("small", "equal"):
                return
            o = call(G.bezier, args[0])
        elif kind == "weight":
            if how in ("small", "equal"):
                o = call(G.weight, 2, [])
            else:
                o = call(G.weight, args[0], [1, 2])
        else:
            o = call(getattr(G, kind), *args)
        ctx.check(not o.ok, f"gen:accepts-invalid:{kind}:{how}", f"{kind}{args} returned {lib.short(list(o.value)) if o.ok else ''}")
        return
    # ---------------- affine maps
    U = lib.dec(case["U"])
    nt = case["numtype"]
    exact = nt == "frac"
    Un = lib.nums(U, nt)
    Uq = [ref.fr(x) for x in Un]
    p, n = ref.wellformed(Uq)
    op = case["op"]
    ctx.cls(f"affine|{op}|{nt}|p{p}|int{len(ref.distinct(Uq)) - 2}")
    ctx.mark_nontrivial(len(ref.distinct(Uq)) > 2)
    ctx.count("affine")
    a = lib.num(F(case["a"]), "frac" if nt in ("frac", "int") else nt)
    s = lib.num(F(case["s"]), "frac" if nt in ("frac", "int") else nt)
    aq, sq = ref.fr(a), ref.fr(s)
    kv = KnotVector(list(Un))
    # a basis function object and a curve built on this very KnotVector object *before* the map, each evaluated once:
    # whatever they keep inside must follow the in-place map of their knot vector
    held_f = Function(kv)
    held_c = None
    ks0 = ref.distinct(Uq)
    u0 = lib.num((ks0[0] + ks0[1]) / 2, "frac" if nt in ("frac", "int") else "float")
    call(held_f, u0)
    call(lambda: held_f[:, 0](u0))
    o_c = call(Curve, kv, lib.mk_points(lib.dec(case["P"]), nt), None if lib.dec(case["W"]) is None else lib.nums(lib.dec(case["W"]), nt))
    if o_c.ok:
        held_c = o_c.value
        call(held_c, u0)
    if op == "shift":
        o = call(kv.shift, a)
        want = [k + aq for k in Uq]
    elif op == "scale":
        o = call(kv.scale, s)
        want = [k * sq for k in Uq]
        aq = F(0)
    elif op == "both":
        o = call(lambda: kv.scale(s).shift(a))
        want = [k * sq + aq for k in Uq]
    else:
        o = call(kv.normalize)
        want = [(k - Uq[0]) / (Uq[-1] - Uq[0]) for k in Uq]
    wd = ref.distinct(want)
    if exact and min(y - x for x, y in zip(wd, wd[1:])) < F(1, 10**6):
        # every failure of such a case is one mechanism: knots that are distinct rationals are identified by the absolute
        # tolerances of ImmutableKnotVector (knots: 1e-6, mult: 1e-9)
        ctx.count("small_scale_cases")
        ctx = _Remap(ctx, "affine:small-scale:knots-merged")
    if not ctx.check(o.ok, f"affine:raises:{op}:{o.exc_name}", f"{op} raised {o.brief()}"):
        return
    got = list(kv)
    gq = [ref.fr(x) for x in got]
    ctx.check(o.value is kv, f"affine:return-self:{op}", f"{op} did not return the same instance")
    ctx.check(kv.degree == p and kv.npts == n and [m for _, m in ref.runs(gq)] == [m for _, m in ref.runs(Uq)], f"affine:multiplicities:{op}", f"{op} changed degree / npts / multiplicities: {lib.short(got)}")
    if exact:
        ctx.check(gq == want and all(lib.is_exact_number(x) for x in got), f"affine:values:{op}:exact", f"{op}: {lib.short(got)} != {lib.short(want)}")
    else:
        ctx.check(all(abs(g - w) <= F(1, 10**12) * max(1, abs(w)) for g, w in zip(gq, want)), f"affine:values:{op}:{nt}", f"{op}: {lib.short(got)} != {lib.short([float(w) for w in want])}")
    if op == "normalize":
        ctx.check(tuple(kv.limits) == (0, 1) and gq[0] == 0 and gq[-1] == 1, f"affine:normalize-limits:{nt}", f"normalize() gave limits {tuple(kv.limits)}, not exactly (0, 1)")
    # reparametrisation invariance (the map actually applied, read back from the result)
    if len(set(gq)) < 2:
        return
    scale_eff = (gq[-1] - gq[0]) / (Uq[-1] - Uq[0])
    shift_eff = gq[0] - scale_eff * Uq[0]
    f0, f1 = Function(list(Un)), Function(list(got))
    P, W = lib.dec(case["P"]), lib.dec(case["W"])
    c0 = lib.mk_curve(U, P, W, nt)
    o1 = call(Curve, list(got), lib.mk_points(P, nt), None if W is None else lib.nums(W, nt))
    if not ctx.check(o1.ok, f"affine:curve-on-mapped-vector:{op}", f"a curve on the mapped vector is rejected: {o1.brief()}"):
        return
    c1 = o1.value
    ks = ref.distinct(Uq)
    probes = []
    for x0, x1 in zip(ks, ks[1:]):
        probes += ref.sample_points(x0, x1, 1)
    for u in probes[:6]:
        un = lib.num(u, "frac" if exact else "float")
        vn = lib.num(scale_eff * ref.fr(un) + shift_eff, "frac" if exact else "float")
        ctx.count("invariance_checks")
        for j in range(p + 1):
            o0, o1 = call(lambda: f0[:, j](un)), call(lambda: f1[:, j](vn))
            if ctx.check(o0.ok and o1.ok, f"affine:invariance-raises:{op}", f"basis evaluation raised {(o0 if not o0.ok else o1).brief()}"):
                if exact:
                    good = list(o0.value) == list(o1.value)
                else:
                    good = all(abs(float(x) - float(y)) <= 1e-9 for x, y in zip(o0.value, o1.value))
                ctx.check(good, f"affine:basis-invariance:{op}:{nt}", f"N_i,{j} over the mapped vector at the mapped parameter differs from N_i,{j} over U at u={u}")
        # the objects built before the map, on the mapped vector they now hold
        oh = call(held_f, vn)
        o1f = call(f1, vn)
        if ctx.check(oh.ok and o1f.ok, f"affine:held-raises:{op}", f"a Function built before the in-place {op} raised afterwards: {(oh if not oh.ok else o1f).brief()}"):
            good = list(oh.value) == list(o1f.value) if exact else all(abs(float(x) - float(y)) <= 1e-9 for x, y in zip(oh.value, o1f.value))
            ctx.check(good, f"affine:held-function-stale:{op}", f"a Function built (and evaluated) before the in-place {op} of its knot vector gives other values than a fresh one at u={vn}")
        if held_c is not None:
            oh, o1c = call(held_c, vn), call(c1, vn)
            if ctx.check(oh.ok and o1c.ok, f"affine:held-raises:{op}", f"a Curve built before the in-place {op} raised afterwards: {(oh if not oh.ok else o1c).brief()}"):
                g0, g1 = lib.pt_tuple(oh.value), lib.pt_tuple(o1c.value)
                good = g0 == g1 if exact else all(abs(float(x) - float(y)) <= 1e-9 * max(1, abs(float(x))) for x, y in zip(g0, g1))
                ctx.check(good, f"affine:held-curve-stale:{op}", f"a Curve built (and evaluated) before the in-place {op} of its knot vector gives other values than a fresh one at u={vn}")
        o0, o1 = call(c0, un), call(c1, vn)
        if ctx.check(o0.ok and o1.ok, f"affine:invariance-raises:{op}", f"curve evaluation raised {(o0 if not o0.ok else o1).brief()}"):
            g0, g1 = lib.pt_tuple(o0.value), lib.pt_tuple(o1.value)
            good = g0 == g1 if exact else all(abs(float(x) - float(y)) <= 1e-9 * max(1, abs(float(x))) for x, y in zip(g0, g1))
            ctx.check(good, f"affine:curve-invariance:{op}:{nt}", f"curve over the mapped vector differs at u={u}")
