"""C09 - Derivate(curve) is the derivative of the curve."""
from fractions import Fraction as F

from .. import cv, gen, lib, ref
from ..lib import call

PROP = "C09"
PLAN = {"quick": (1400, 400), "thorough": (50000, 3600)}
LARGE = (0.04, 24)  # (share, largest size) of the large class of gen.kv: 17+ control points, degree up to 8
STEP_BUDGET = 20_000_000  # loop line events per outermost call: ten times the default, for the large class
RULE = ("case = curve of degree 0..4 (Bezier, multi-span, C0 knots of multiplicity p, discontinuities of multiplicity p+1, "
        "non uniform knots, optional weights, scalar / vector points, Fraction / float / numpy knots); D = Derivate(C) is "
        "compared with the differentiated Cox-de Boor recursion (quotient rule for rational curves) at p+1 points of "
        "every open span and at every knot where C is C1. non-trivial = interior knot or weights; distinct = case JSON")
ANCHORS = ["Calculus.difference_vector", "Calculus.difference_matrix", "Calculus.derivate_nonrational_spline",
           "Calculus.derivate_nonrational_bezier", "Derivate.nonrational_spline", "Derivate.curve"]
MIN_COUNTERS = {"derivatives": 100, "points_compared": 2000, "rational": 20, "degree0": 5}
ASSUMPTIONS = ["relative tolerance 1e-9 (the difference matrix is float64 even for Fraction knots; the statement does not claim exactness)",
               "float classes judged on well-conditioned curves only"]


def gen_case(rng, idx, tier):
    nt = rng.choice(["frac", "frac", "float", "npfloat"])
    rational = rng.random() < 0.3
    if rational:
        cur = gen.curve(rng, pmax=3, nintmax=2, rational=True, wratio=9)
    else:
        deep = tier == "thorough" and rng.random() < 0.25
        cur = gen.curve(rng, pmax=6 if deep else 4, nintmax=6 if deep else 4, rational=False, magnitudes=True)
    if rng.random() < 0.15:
        U = gen.integer_kv(rng, pmax=3, nintmax=3)
        p, n = ref.wellformed(U)
        cur = {"U": U, "P": gen.points(rng, n, rng.choice([0, 2])), "W": None}
        nt = "int"
    return cv.enc_curve(cur, nt)


def run_case(case, ctx):
    from compmec.nurbs import Derivate

    U, P, W, nt = cv.dec_curve(case)
    b = cv.build(ctx, case)
    if b is None:
        return
    curve, rc, exact = b
    p = rc.p
    kind = "rat" if W is not None else "poly"
    maxm = max([m for _, m in ref.runs(U)[1:-1]] or [0])
    feat = "disc" if maxm == p + 1 else ("c0" if maxm == p and p > 0 else "smooth")
    shape = "bez" if len(ref.distinct(U)) == 2 else "spl"
    ctx.cls(cv.label(U, P, W, nt) + f"|{feat}")
    ctx.mark_nontrivial(len(ref.distinct(U)) > 2 or W is not None)
    judged = gen.well_conditioned(U, W) or (nt == "frac" and p <= 4)
    pre = lib.curve_digest(curve)
    o = call(Derivate, curve)
    cv.unchanged(ctx, curve, pre, "deriv:modified", "Derivate(C)")
    ctx.count("derivatives")
    if W is not None:
        ctx.count("rational")
    if p == 0:
        ctx.count("degree0")
    if not ctx.check(o.ok, f"deriv:raises:{o.exc_name}:{kind}:{shape}:{feat}", f"Derivate raised {o.brief()}"):
        return
    D = o.value
    if not ctx.check(hasattr(D, "_BaseCurve__knotvector"), "deriv:result-type", f"Derivate returned {type(D).__name__}"):
        return
    rd = cv.state_rc(ctx, D, "Derivate")
    if rd is None:
        return
    lim_ok = all(abs(a - b) <= F(1, 10**12) * max(1, abs(b)) for a, b in zip(rd.limits, rc.limits))
    ctx.check(lim_ok, "deriv:limits", f"Derivate lives on {rd.limits}, curve on {rc.limits}")
    if not judged or not lim_ok:
        ctx.count("unjudged")
        return
    # sample points: p+1 per open span, and C1 knots
    br = rc.breaks()
    pts = []
    for a, bb in zip(br, br[1:]):
        pts += [(x, "span") for x in ref.sample_points(a, bb, p)]
    for k in br[1:-1]:
        m = ref.mult(rc.U, k)
        if W is None and m <= p - 1:
            pts.append((k, "c1-knot"))
    wants = [(x, where, rc.deriv(x)) for x, where in pts]
    scale = max([1.0] + [abs(float(c)) for _, _, w in wants for c in w])
    bad = None
    for x, where, want in wants:
        # the library's own evaluation of D
        # (points strictly inside D's interval; D's limits may differ from C's by rounding only)
        un = lib.num(x, "frac" if nt in ("frac", "int") else nt)
        o = call(D, un)
        ctx.count("points_compared")
        if not o.ok:
            ctx.check(False, f"deriv:eval-raises:{o.exc_name}", f"Derivate(C)({x}) raised {o.brief()}")
            return
        got = lib.pt_tuple(o.value) if not isinstance(o.value, tuple) else o.value
        try:
            g = [float(c) for c in got]
        except (TypeError, ValueError):
            g = None
        ok = g is not None and len(g) == len(want) and all(abs(a - float(w)) <= 1e-9 * scale for a, w in zip(g, want))
        # and the reference evaluation of D's stored representation (ties out library evaluation errors)
        got2 = rd(ref.fr(un)) if rd.U[0] <= ref.fr(un) <= rd.U[-1] else None
        ok2 = got2 is not None and all(abs(float(a) - float(w)) <= 1e-9 * scale for a, w in zip(got2, want))
        if not (ok and ok2) and bad is None:
            bad = (x, where, got, want)
    zero = "zero" if p == 0 else "nonzero"
    ctx.check(bad is None, f"deriv:value:{kind}:{shape}:{feat}:{zero}",
              f"Derivate(C)({bad[0] if bad else ''}) [{bad[1] if bad else ''}] = {lib.short(bad[2] if bad else '')} but dC/du = {lib.short([float(c) for c in bad[3]] if bad else '')}")
    if p == 0:
        ctx.check(all(all(c == 0 for c in pt) for pt in rd.P), "deriv:degree0-zero", "derivative of a degree-0 curve is not the zero curve")
