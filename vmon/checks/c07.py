"""C07 - splitting restricts the curve exactly; joining adjacent pieces restores it."""
from fractions import Fraction as F

from .. import cv, gen, lib, ref
from ..lib import call
from .c05 import deviation_ok

PROP = "C07"
PLAN = {"quick": (1600, 300), "thorough": (24000, 3000)}
LARGE = (0.02, 19)  # (share, largest size) of the large class of gen.kv: 17+ control points, degree up to 8
STEP_BUDGET = 20_000_000  # loop line events per outermost call: ten times the default, for the large class
RULE = ("case = split: (curve, cut nodes) with cuts at existing knots of every multiplicity, new values, 0, the ends, "
        "repeated cuts, split() without argument, discontinuous curves, rational curves, outside nodes; the pieces are "
        "then joined again with | ; join: independently built adjacent pairs (equal / different degrees, continuous or "
        "not at the junction, polynomial / rational), and non adjacent pairs. non-trivial = >=2 pieces or an "
        "independent pair; distinct = case JSON")
ANCHORS = ["Operations.split_curve", "ImmutableKnotVector.split", "Curve.split", "BaseCurve.__or__"]
MIN_COUNTERS = {"splits": 30, "pieces_checked": 60, "joins_of_split": 20, "joins_independent": 20}
ASSUMPTIONS = ["rational joins are judged on function equality only", "float class judged on well-conditioned curves to 1e-9"]


def gen_case(rng, idx, tier):
    nt = cv.pick_numtype(rng, None, 0.25)
    r = rng.random()
    if r < 0.68:
        want_zero = rng.random() < 0.2
        cur = gen.curve(rng, itv=(F(-1), F(1)) if want_zero else None, want_zero=want_zero or None, nintmax=4)
        U = cur["U"]
        ks = ref.distinct(U)
        a, b = U[0], U[-1]
        mode = rng.choice(["nodes", "nodes", "nodes", "noarg", "outside", "ends-only"])
        nodes = []
        if mode == "nodes":
            for _ in range(rng.randint(1, 3)):
                c = rng.random()
                if c < 0.4 and len(ks) > 2:
                    nodes.append(rng.choice(ks[1:-1]))
                elif c < 0.5 and a < 0 < b:
                    nodes.append(F(0))
                elif c < 0.6:
                    nodes.append(rng.choice([a, b]))
                else:
                    nodes.append(a + (b - a) * F(rng.randint(1, 59), 60))
            if rng.random() < 0.3:
                nodes.append(nodes[0])
        elif mode == "outside":
            nodes = [a + (b - a) / 2, b + F(1, 2)]
        elif mode == "ends-only":
            nodes = [a, b]
        d = cv.enc_curve(cur, nt)
        d.update(kind="split", mode=mode, nodes=lib.enc(nodes), argform=rng.choice(["list", "list", "tuple", "array"]))
        return d
    # independent adjacent pair
    A = gen.curve(rng, nintmax=2, pmax=3, dim=rng.choice([0, 2]), large=False)
    dimA = 0 if not isinstance(A["P"][0], list) else len(A["P"][0])
    rationalB = rng.random() < 0.3
    if A["W"] is not None and rng.random() < 0.5:
        rationalB = True
    b = A["U"][-1]
    adjacent = r < 0.95
    lo = b if adjacent else b + F(1, 4)
    B = gen.curve(rng, nintmax=2, pmax=3, dim=dimA, rational=rationalB, itv=(lo, lo + rng.choice([1, 2, F(1, 2)])), large=False)
    cont = rng.random() < 0.6
    if cont:
        # make the junction continuous
        B["P"][0] = A["P"][-1]
    d = {"kind": "join", "A": cv.enc_curve(A, nt), "B": cv.enc_curve(B, nt), "numtype": nt, "adjacent": adjacent, "continuous": cont}
    return d


def piece_vector(U, a, b):
    p = ref.degree(U)
    return [a] * (p + 1) + [k for k in U if a < k < b] + [b] * (p + 1)


def run_split(case, ctx):
    U, P, W, nt = cv.dec_curve(case)
    bld = cv.build(ctx, case)
    if bld is None:
        return
    curve, rc, exact = bld
    p = rc.p
    kind = "rat" if W is not None else "poly"
    judged = exact or gen.well_conditioned(U, W)
    mode = case["mode"]
    maxm = max([m for _, m in ref.runs(U)[1:-1]] or [0])
    ctx.cls(cv.label(U, P, W, nt) + f"|split:{mode}" + ("|disc" if maxm == p + 1 else ""))
    nodes_n = [lib.num(x, nt) for x in lib.dec(case["nodes"])]
    nodes_q = [ref.fr(x) for x in nodes_n]
    pre = lib.curve_digest(curve)
    o = call(curve.split) if mode == "noarg" else call(curve.split, lib.container(nodes_n, case.get("argform", "list")))
    cv.unchanged(ctx, curve, pre, "split:modified", "split")
    if mode == "outside":
        ctx.check((not o.ok) and isinstance(o.exc, ValueError), "split:outside", f"split with a node outside: {o.brief() if not o.ok else 'accepted'}")
        return
    ctx.count("splits")
    zero = "zero" if any(x == 0 for x in nodes_q) or (mode == "noarg" and 0 in rc.U[1:-1]) else "nonzero"
    if not ctx.check(o.ok, f"split:raises:{o.exc_name}:{zero}", f"split({case['nodes']}) raised {o.brief()}"):
        return
    pieces = o.value
    cuts = sorted(set(nodes_q) | {rc.U[0], rc.U[-1]}) if mode != "noarg" else ref.distinct(rc.U)
    if not ctx.check(isinstance(pieces, tuple) and len(pieces) == len(cuts) - 1, "split:count", f"split gave {len(pieces)} pieces for {len(cuts) - 1} sub-intervals"):
        return
    ctx.mark_nontrivial(len(pieces) >= 2)
    good = True
    for (a, b), pc in zip(zip(cuts, cuts[1:]), pieces):
        ctx.count("pieces_checked")
        why = cv.knots_match(lib.curve_state(pc)[0], piece_vector(rc.U, a, b), exact)
        good &= ctx.check(why is None, "split:piece-knots", f"piece on [{a},{b}]: {why}")
        prc = cv.state_rc(ctx, pc, "split piece")
        if prc is None or why is not None:
            good = False
            continue
        ctx.check((prc.W is None) == (W is None), "split:piece-weights", "piece lost / gained weights")
        if exact:
            fl = cv.exact_state(pc)
            ctx.check(fl is None, f"split:type:{kind}", f"float introduced in an exact split at {fl}")
        if judged:
            if exact:
                d = ref.restrict_equal(prc, rc)
                good &= ctx.check(d is None, f"split:piece-function:{kind}", f"piece on [{a},{b}] differs from the curve: {lib.short(d, 300)}")
            else:
                sc = cv.scale_of(rc)
                for x in ref.sample_points(a, b, 3):
                    va, vb = prc(x), rc(x)
                    good &= ctx.check(all(abs(float(s) - float(t)) <= 1e-9 * sc for s, t in zip(va, vb)), f"split:piece-function:{kind}", f"piece on [{a},{b}] differs at {float(x)}")
            # last piece closes at umax with the left limit
            if b == rc.U[-1]:
                good &= ctx.check(lib.same_point([float(x) for x in prc(b)], rc(b), False, 1e-9), "split:piece-end", "last piece does not end at curve(umax)")
    if exact and good and len(U) % 3 == 0:
        # the same curve object after an in-place reparametrisation of its knot vector (shift, then scale by 2): split()
        # must cut at the knots the curve has now, not at anything remembered from the first split
        if hasattr(ctx, "verify_watched"):
            ctx.verify_watched()  # the bystander shares this KnotVector object: judged up to here, released now
        o1 = call(lambda: curve.knotvector.shift(lib.num(F(10), nt)).scale(lib.num(F(2), nt)))
        if o1.ok:
            ctx.count("splits_after_inplace_map")
            rc2 = ref.RC([(k + 10) * 2 for k in rc.U], rc.P, rc.W)
            o2 = call(curve.split)
            if ctx.check(o2.ok, f"split:after-inplace-map:raises:{o2.exc_name}", f"split() after knotvector.shift(10).scale(2) raised {o2.brief()}"):
                ks2 = ref.distinct(rc2.U)
                ok2 = isinstance(o2.value, tuple) and len(o2.value) == len(ks2) - 1
                if ok2:
                    for (a2, b2), pc in zip(zip(ks2, ks2[1:]), o2.value):
                        prc = cv.state_rc(ctx, pc, "split piece after in-place map")
                        ok2 = ok2 and prc is not None and prc.limits == (a2, b2) and ref.restrict_equal(prc, rc2) is None
                ctx.check(ok2, "split:after-inplace-map:pieces", "split() after an in-place shift / scale of the curve's knot vector does not give the Bezier pieces between the current knots")
    if len(pieces) > 6:
        ctx.count("joins_skipped_many_pieces")  # large class: the pieces are judged, re-joining 7..30 of them is not affordable
    if not good or len(pieces) < 2 or not judged or len(pieces) > 6:
        return
    # join the pieces again
    ctx.count("joins_of_split")
    pre_pieces = [lib.curve_digest(pc) for pc in pieces]

    def joinall():
        acc = pieces[0]
        for pc in pieces[1:]:
            acc = acc | pc
        return acc

    o = call(joinall)
    for pc, d in zip(pieces, pre_pieces):
        ctx.check(lib.curve_digest(pc) == d, "join:operand-modified", "joining modified a piece")
    if not ctx.check(o.ok, f"join:raises:{o.exc_name}:{kind}", f"joining the pieces of a split raised {o.brief()}"):
        return
    J = cv.state_rc(ctx, o.value, "join")
    if J is None:
        return
    d = cv.function_diff(rc, J, exact)
    if d is not None:
        # tier 2: a needed copy of a junction knot removed within the 1e-9 tolerance of the junction cleaning
        ctx.count("join_tier2")
        deviation_ok(ctx, rc, J, F(1, 10**9), exact, f"join:function:{kind}", f"join of the split pieces differs from the original curve ({d})")
    else:
        ctx.count("join_tier1")
        ctx.compared()
    if W is None and exact and d is None:
        junctions = cuts[1:-1]
        expU = list(rc.U)
        for k in junctions:
            need = ref.needed_mult(rc, k)
            have = ref.mult(expU, k)
            for _ in range(have - need):
                expU.remove(k)
        why = cv.knots_match(J.U, expU, True)
        ctx.check(why is None, "join:knots", f"joined knot vector {lib.short(J.U)} but original with needed junction multiplicities is {lib.short(expU)}")


def run_join(case, ctx):
    nt = case["numtype"]
    bA = cv.build(ctx, case["A"])
    bB = cv.build(ctx, case["B"])
    if bA is None or bB is None:
        return
    (A, ra, exact), (B, rb, _) = bA, bB
    rational = ra.W is not None or rb.W is not None
    kind = "rat" if rational else "poly"
    judged = exact or (gen.well_conditioned(ra.U, ra.W) and gen.well_conditioned(rb.U, rb.W))
    jump = ra(ra.U[-1]) != rb(rb.U[0])
    ctx.cls(f"join|pA{ra.p}|pB{rb.p}|{kind}|{nt}|{'jump' if jump else 'cont'}|{'adj' if case['adjacent'] else 'gap'}")
    ctx.mark_nontrivial(True)
    preA, preB = lib.curve_digest(A), lib.curve_digest(B)
    o = call(lambda: A | B)
    ctx.check(lib.curve_digest(A) == preA and lib.curve_digest(B) == preB, "join:operand-modified", "A | B modified an operand")
    if not case["adjacent"]:
        ctx.check((not o.ok) and isinstance(o.exc, ValueError), "join:gap", f"A | B with max(A) != min(B): {o.brief() if not o.ok else 'accepted'}")
        return
    ctx.count("joins_independent")
    feat = f"{kind}:{'jump' if jump else 'cont'}:{'eqdeg' if ra.p == rb.p else 'difdeg'}"
    if not ctx.check(o.ok, f"join:raises:{o.exc_name}:{feat}", f"A | B raised {o.brief()}"):
        return
    J = cv.state_rc(ctx, o.value, "join")
    if J is None or not judged:
        return
    ctx.check(J.limits == (ra.U[0], rb.U[-1]) if exact else True, "join:limits", f"A | B lives on {J.limits}")
    ctx.check(J.p == max(ra.p, rb.p), "join:degree", f"A | B has degree {J.p}")
    sc = max(cv.scale_of(ra), cv.scale_of(rb))
    bad = None
    for part, where in ((ra, "A"), (rb, "B")):
        br = part.breaks()
        for x0, x1 in zip(br, br[1:]):
            for x in ref.sample_points(x0, x1, max(J.p, part.p) * (2 if rational else 1)):
                va, vb = J(x), part(x)
                ok = va == vb if exact else all(abs(float(s) - float(t)) <= 1e-9 * sc for s, t in zip(va, vb))
                if not ok and bad is None:
                    bad = (where, x, va, vb)
    if bad is not None and not rational:
        # tier 2, as for the joins of split pieces: the junction knot is cleaned with the library's 1e-9 tolerance, so a
        # copy that is needed only by less than that may go. Judged against the exact piecewise curve (both parts raised to
        # the common degree, junction knot of full multiplicity) with the deviation bound of clean()
        ctx.count("join_tier2")
        q = max(ra.p, rb.p)
        ea, eb = ref.elevate(ra, q - ra.p) if q > ra.p else ra, ref.elevate(rb, q - rb.p) if q > rb.p else rb
        whole = ref.RC(ea.U[: -(q + 1)] + [rb.U[0]] * (q + 1) + eb.U[q + 1:], list(ea.P) + list(eb.P), None)
        deviation_ok(ctx, whole, J, F(1, 10**9), exact, f"join:function:{feat}", f"(A | B) differs from {bad[0]} at u={bad[1]}: {lib.short(bad[2:])}")
    else:
        ctx.check(bad is None, f"join:function:{feat}", f"(A | B) differs from {bad[0] if bad else ''} at u={bad[1] if bad else ''}: {lib.short(bad[2:] if bad else '')}")
    # the junction value belongs to B, the end value to B
    va, vb = J(rb.U[0]), rb(rb.U[0])
    strict = exact and not (bad is not None and not rational)  # after a tolerant junction cleaning the value is within the tolerance, not exact
    ctx.check(va == vb if strict else lib.pts_close([float(x) for x in va], vb, 1e-9 if not exact else 1e-6), f"join:junction-value:{feat}", "(A | B)(junction) != B(junction)")


def run_case(case, ctx):
    if case["kind"] == "split":
        run_split(case, ctx)
    else:
        run_join(case, ctx)
