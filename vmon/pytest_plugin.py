"""pytest plugin: run the repository's own tests with the always-on monitors (M1 state monitor, M3 reach counters,
M4 numeric sanitizer) attached.  Usage:  pytest -p vmon.pytest_plugin  with VMON_REPORT=<json path>."""
import json
import os

from . import attach

_S = None
_fired = []
_tests = 0


def pytest_configure(config):
    global _S
    _S = attach.attach(budget=50_000_000)


def pytest_runtest_teardown(item, nextitem):
    global _tests
    _tests += 1
    for v in attach.drain_violations():
        v["test"] = item.nodeid
        _fired.append(v)


def pytest_sessionfinish(session, exitstatus):
    path = os.environ.get("VMON_REPORT")
    if path:
        with open(path, "w") as fh:
            json.dump({"tests": _tests, "violations": _fired[:200], "nviolations": len(_fired),
                       "events": {f"{k[0]}|{k[1]}": n for k, n in _S.events.items()}, "missing": _S.missing}, fh, default=str)
