"""
Glue between JSON cases, the library under test and the reference model.

Cases store every number as an exact rational string "n/d" (or int) plus a
``numtype`` tag; `num` turns it into the requested representation.
"""
import math
import traceback
from fractions import Fraction as F

import numpy as np

from . import ref

NUMTYPES = ("frac", "float", "npfloat", "int")


# -------------------------------------------------------------------- json
def enc(x):
    """exact number -> json"""
    if isinstance(x, (list, tuple)):
        return [enc(y) for y in x]
    if x is None or isinstance(x, (str, bool)):
        return x
    x = ref.fr(x)
    return int(x) if x.denominator == 1 else f"{x.numerator}/{x.denominator}"


def dec(x):
    """json -> Fraction (nested)"""
    if isinstance(x, list):
        return [dec(y) for y in x]
    if x is None:
        return None
    if isinstance(x, str):
        return F(x)
    return F(x)


MIXED = False  # per-case switch (worker.setup_case): the exact class is written the way users write it, Python ints
# for the integral values and Fractions for the others, in knots, points, weights, nodes and parameters alike


def num(x, numtype):
    """Fraction -> number of the requested representation"""
    if numtype == "frac":
        if MIXED:
            x = F(x)
            return int(x) if x.denominator == 1 else x
        return F(x)
    if numtype == "float":
        return float(x)
    if numtype == "npfloat":
        return np.float64(float(x))
    if numtype in ("int", "fracint"):
        x = F(x)
        return int(x) if x.denominator == 1 else x
    raise ValueError(numtype)


def nums(xs, numtype):
    return [num(x, numtype) for x in xs]


def exact_image(x, numtype):
    """the rational number the library actually receives for Fraction x in `numtype`"""
    return ref.fr(num(x, numtype))


# -------------------------------------------------------------------- points
def mk_points(P, numtype, ptkind="auto"):
    """P: list of Fractions (scalar curve) or list of lists (vector curve)"""
    if P is None:
        return None
    integral = all(F(c).denominator == 1 and abs(F(c)) < 2**40 for pt in P for c in (pt if isinstance(pt, (list, tuple)) else [pt]))
    if integral and ptkind == "auto" and numtype in ("frac", "float", "npfloat") and (len(P) + len(str(P[-1]))) % 3 == 0:
        # integral control values written the way users write them: one integer numpy array (dtype int64), scalar or
        # vector valued. Whatever the library computes from them must not be cast back to that dtype
        return np.array([[int(F(c)) for c in pt] if isinstance(pt, (list, tuple)) else int(F(pt)) for pt in P], dtype="int64")
    if not isinstance(P[0], (list, tuple)):
        return [num(x, numtype) for x in P]
    if numtype in ("frac", "int", "fracint"):
        arr = np.empty((len(P), len(P[0])), dtype=object)
        for i, pt in enumerate(P):
            for j, c in enumerate(pt):
                arr[i, j] = num(c, numtype)
        return arr
    return np.array([[float(c) for c in pt] for pt in P], dtype="float64")


def pt_tuple(x):
    """library point -> tuple of exact rationals"""
    if isinstance(x, np.ndarray) and x.ndim == 0:
        x = x.item()
    if isinstance(x, (list, tuple, np.ndarray)):
        return tuple(ref.fr(c) for c in x)
    return (ref.fr(x),)


def pt_tuple_case(x):
    if isinstance(x, (list, tuple)):
        return tuple(F(c) for c in x)
    return (F(x),)


# -------------------------------------------------------------------- library objects
def nurbs():
    import compmec.nurbs as m

    return m


def scribble(x):
    """overwrite a container the harness handed to the library: knot and weight sequences are copied by the library, so
    what the caller does with its own list / array afterwards must not reach the object"""
    if isinstance(x, np.ndarray):
        if x.dtype == object:
            for i in np.ndindex(x.shape):
                x[i] = F(977, 7)
        else:
            x[...] = 977
    elif isinstance(x, list):
        for i in range(len(x)):
            x[i] = F(977, 7)


def mk_curve(U, P, W, numtype):
    m = nurbs()
    # "fracint": Fraction knots with Python ints for integral control points / weights (the other exact class of C16)
    kv = nums(U, "frac" if numtype == "fracint" else numtype)
    w = None if W is None else nums(W, numtype)
    if w is not None and len(kv) % 2 == 0:
        w = container(w, "oarray")
    if len(kv) % 3 == 0:
        kv = container(kv, "oarray")
    c = m.Curve(kv, mk_points(P, numtype), w)
    scribble(kv)
    scribble(w)
    return c


def curve_state(c):
    """raw (knots, points, weights) as python lists of library numbers"""
    U = list(c.knotvector)
    P = c.ctrlpoints
    W = c.weights
    return U, (None if P is None else list(P)), (None if W is None else list(W))


def to_rc(c):
    """library curve -> reference curve (exact image of whatever numbers it holds)"""
    U, P, W = curve_state(c)
    return ref.RC(U, [pt_tuple(p) for p in P], W)


def case_rc(U, P, W, numtype="frac"):
    """reference curve for the numbers the library receives"""
    Uq = [exact_image(x, numtype) for x in U]
    Pq = [tuple(exact_image(c, numtype) for c in pt_tuple_case(p)) for p in P]
    Wq = None if W is None else [exact_image(w, numtype) for w in W]
    return ref.RC(Uq, Pq, Wq)


# -------------------------------------------------------------------- outcome capture
class Outcome:
    __slots__ = ("ok", "value", "exc", "tb")

    def __init__(self, ok, value=None, exc=None, tb=None):
        self.ok, self.value, self.exc, self.tb = ok, value, exc, tb

    @property
    def exc_name(self):
        return None if self.exc is None else type(self.exc).__name__

    def brief(self):
        if self.ok:
            return "ok"
        return f"{self.exc_name}: {str(self.exc)[:120]}"


class StepBudgetExceeded(BaseException):
    """raised from the line monitor when a library loop exceeds its logical step budget"""


def call(fn, *a, **k):
    """run library code, capture any exception raised by it"""
    try:
        return Outcome(True, fn(*a, **k))
    except StepBudgetExceeded as e:
        return Outcome(False, None, e, "step budget")
    except Exception as e:  # library exceptions only: the oracle never runs inside `call`
        return Outcome(False, None, e, traceback.format_exc(limit=6))


# -------------------------------------------------------------------- comparisons
EXACT_TYPES = (int, F)


def is_exact_number(x):
    return isinstance(x, EXACT_TYPES) and not isinstance(x, bool) or isinstance(x, np.integer)


def find_float(obj, path="$", depth=0):
    """path of the first float / numpy floating inside a nested result, or None"""
    if depth > 8:
        return None
    if isinstance(obj, (float, np.floating)):
        return path
    if isinstance(obj, (int, F, str, type(None), np.integer)):
        return None
    if isinstance(obj, np.ndarray):
        if obj.dtype.kind == "f":
            return path + "[ndarray float]"
        if obj.dtype.kind == "O":
            for idx, v in np.ndenumerate(obj):
                r = find_float(v, f"{path}{list(idx)}", depth + 1)
                if r:
                    return r
        return None
    if isinstance(obj, (list, tuple)):
        for i, v in enumerate(obj):
            r = find_float(v, f"{path}[{i}]", depth + 1)
            if r:
                return r
        return None
    return None


def close(a, b, rel=1e-9, abs_=None):
    """|a-b| <= rel*max(1,|b|) on exact images"""
    try:
        a, b = float(a), float(b)
    except (TypeError, ValueError):
        return False
    if math.isnan(a) or math.isnan(b) or math.isinf(a) or math.isinf(b):
        return False
    tol = rel * max(1.0, abs(b)) if abs_ is None else abs_
    return abs(a - b) <= tol


def pts_equal_exact(got, want):
    """library point vs tuple of Fractions, exact value and exact number type"""
    if isinstance(got, np.ndarray) and got.ndim == 0:
        got = got.item()
    g = got if isinstance(got, (list, tuple, np.ndarray)) else (got,)
    if len(g) != len(want):
        return False
    for x, y in zip(g, want):
        if not is_exact_number(x):
            return False
        if ref.fr(x) != y:
            return False
    return True


def pts_close(got, want, rel=1e-9, scale=None):
    """scale: size of the data the value was computed from (a value that is small by cancellation is only accurate
    relative to its operands)"""
    if isinstance(got, np.ndarray) and got.ndim == 0:
        got = got.item()
    g = got if isinstance(got, (list, tuple, np.ndarray)) else (got,)
    if len(g) != len(want):
        return False
    scale = max([1.0, scale or 0.0] + [abs(float(y)) for y in want])
    for x, y in zip(g, want):
        try:
            xf = float(x)
        except (TypeError, ValueError):
            return False
        if math.isnan(xf) or abs(xf - float(y)) > rel * scale:
            return False
    return True


def same_point(got, want, exact, rel=1e-9):
    return pts_equal_exact(got, want) if exact else pts_close(got, want, rel)


def digest(obj):
    """canonical comparable snapshot of numbers / arrays / tuples (type sensitive, NaN safe)"""
    if obj is None or isinstance(obj, (str, bool)):
        return obj
    if isinstance(obj, np.ndarray):
        if obj.ndim == 0:
            return ("nd0", digest(obj.item()))
        return ("nd",) + tuple(digest(x) for x in obj.tolist())
    if isinstance(obj, (list, tuple)):
        return tuple(digest(x) for x in obj)
    if isinstance(obj, (float, np.floating)):
        return ("f", float(obj).hex())
    if isinstance(obj, (int, np.integer)):
        return ("i", int(obj))
    if isinstance(obj, F):
        return ("q", obj.numerator, obj.denominator)
    return ("o", repr(obj))


def curve_digest(c):
    """snapshot (knots, points, weights) through name-mangled privates, never through monitored code"""
    kv = c._BaseCurve__knotvector
    P = c._BaseCurve__ctrlpoints
    W = c._BaseCurve__weights
    return (digest(tuple(kv._KnotVector__internal)), digest(P), digest(W))


def kv_digest(kv):
    return digest(tuple(kv._KnotVector__internal))


def short(obj, n=200):
    s = repr(obj)
    return s if len(s) <= n else s[: n - 3] + "..."


def container(seq, how):
    """the same numbers in another legal argument form: list / tuple / numpy array (object dtype for exact numbers) /
    a one-shot generator"""
    seq = list(seq)
    if how == "tuple":
        return tuple(seq)
    if how in ("array", "oarray"):
        # "oarray": exact numbers (also Python ints) stay Python objects; numpy integer scalars are not a number type
        # any statement names
        if any(isinstance(x, F) for x in seq) or not seq or (how == "oarray" and all(type(x) is int for x in seq)):
            arr = np.empty(len(seq), dtype=object)
            for i, x in enumerate(seq):
                arr[i] = x
            return arr
        return np.array(seq)
    if how == "generator":
        return (x for x in seq)
    return seq
