"""
CLI / scheduler / evidence writer / verdict and known-finding logic.

    python -m vmon.run C07 [--tier quick|thorough] [--seed N] [--jobs N]
    python -m vmon.run --replay out/C07/<file>.json

exit 0 held | exit 1 + "VIOLATION property=<id> replay=<path>" | exit 2 + "INCONCLUSIVE property=<id> reason=..."
"""
import argparse
import hashlib
import json
import os
import re
import shutil
import subprocess
import sys
import tempfile
import time
from collections import Counter

HERE = os.path.dirname(os.path.dirname(os.path.abspath(__file__)))
PY = os.environ.get("VERIF_PYTHON", "/venv/bin/python")


def repo_path():
    return os.environ.get("VERIF_REPO", "/repo")


def worker_env():
    env = dict(os.environ)
    env["PYTHONPATH"] = os.path.join(repo_path(), "src") + os.pathsep + HERE
    env["PYTHONHASHSEED"] = "0"
    env["PYTHONDONTWRITEBYTECODE"] = "1"
    env["PYTHONWARNINGS"] = "ignore"
    env["OMP_NUM_THREADS"] = env["OPENBLAS_NUM_THREADS"] = env["MKL_NUM_THREADS"] = "1"
    return env


def load_known():
    path = os.path.join(HERE, "known_findings.json")
    if not os.path.exists(path):
        return []
    with open(path) as fh:
        return json.load(fh).get("findings", [])


def known_open(prop):
    return {f["key"]: f for f in load_known() if f["property"] == prop and f.get("status") == "open"}


def sanitize(s):
    return re.sub(r"[^A-Za-z0-9_.-]+", "_", s)[:80]


def inconclusive(prop, reason, code=2):
    print(f"INCONCLUSIVE property={prop} reason={reason}")
    return code


def write_evidence(prop, tier, seed, coverage, wall, nviol, assumptions):
    # evidence is only ever written for /repo itself; runs against scratch trees (mutant validation) go elsewhere
    evdir = os.path.join(HERE, "evidence") if os.path.realpath(repo_path()) == "/repo" else os.path.join(HERE, "out", "scratch-evidence")
    os.makedirs(evdir, exist_ok=True)
    ev = {
        "property_id": prop, "tier": tier, "seed": seed, "level": "exploration", "coverage": coverage,
        "assumptions": assumptions, "wall_s": round(wall, 2), "violations": nviol,
    }
    with open(os.path.join(evdir, f"{prop}.json"), "w") as fh:
        json.dump(ev, fh, indent=1, default=str)


def run_check(prop, tier, seed, jobs):
    t0 = time.time()
    sys.path.insert(0, HERE)
    # the reference model is itself monitored
    from vmon import selftest

    try:
        selftest.run(n=5, seed=seed + 7)
    except Exception as e:
        return inconclusive(prop, f"reference self-test failed: {e!r}")
    # plan comes from the check module; importing it must not need the library
    import importlib

    mod = importlib.import_module(f"vmon.checks.{prop.lower()}")
    ncases, deadline = mod.PLAN[tier]
    scale = float(os.environ.get("VERIF_SCALE", "1"))
    ncases = max(jobs, int(ncases * scale))
    outdir = os.path.join(HERE, "out", prop if os.path.realpath(repo_path()) == "/repo" else prop + "-scratch")
    shutil.rmtree(outdir, ignore_errors=True)  # replay files of earlier runs are stale
    os.makedirs(outdir, exist_ok=True)
    tmp = tempfile.mkdtemp(prefix=f"vmon-{prop}-", dir=os.path.join(HERE, "out"))
    procs = []
    for k in range(jobs):
        outp = os.path.join(tmp, f"shard{k}.json")
        cmd = [PY, "-B", "-m", "vmon.worker", prop, tier, str(seed), str(k), str(jobs), str(ncases), str(deadline), outp]
        log = open(os.path.join(tmp, f"shard{k}.log"), "w")
        procs.append((k, outp, subprocess.Popen(cmd, cwd=HERE, env=worker_env(), stdout=log, stderr=subprocess.STDOUT), log))
    watchdog = deadline * 4 + 120
    reports, dead = [], []
    for k, outp, p, log in procs:
        left = max(5.0, watchdog - (time.time() - t0))
        try:
            p.wait(timeout=left)
        except subprocess.TimeoutExpired:
            p.kill()
            dead.append((k, "watchdog"))
            continue
        finally:
            log.close()
        if p.returncode != 0 or not os.path.exists(outp):
            tail = open(os.path.join(tmp, f"shard{k}.log")).read()[-1500:]
            dead.append((k, f"exit {p.returncode}: {tail}"))
            continue
        with open(outp) as fh:
            reports.append(json.load(fh))
    # ---- merge
    evaluations = sum(r["evaluations"] for r in reports)
    digests = set()
    counters, classes, events, reach, fp, vcounts = Counter(), Counter(), Counter(), Counter(), Counter(), Counter()
    violations, internal, samples, missing = [], [], [], set()
    max_steps, skipped = 0, 0
    loopf = set()
    for r in reports:
        digests |= set(r["nontrivial_digests"])
        counters.update(r["counters"])
        classes.update(r["classes"])
        events.update(r["events"])
        reach.update(r["reach"])
        fp.update(r["fp_events"])
        vcounts.update(r.get("violation_counts", {}))
        violations += r["violations"]
        internal += r["internal_errors"]
        samples += r["samples"]
        missing |= set(r["missing"])
        max_steps = max(max_steps, r["max_steps"])
        skipped += r["skipped_deadline"]
        loopf |= set(r.get("loop_functions", []))
    # thorough-tier supplement: the repository's own test-suite under the always-on monitors
    repo_tests = None
    if tier == "thorough" and getattr(mod, "WITH_REPO_TESTS", False):
        repo_tests = run_repo_tests(tmp)
        if repo_tests.get("error"):
            dead.append(("repo-tests", repo_tests["error"]))
        else:
            counters["repo_tests_run_under_monitors"] = repo_tests["tests"]
            counters["repo_tests_monitored_events"] = sum(repo_tests["events"].values())
            missing |= set(repo_tests["missing"])
            for v in repo_tests["violations"]:
                key = f"m1:{v['kind']}:{v['op']}:repo-tests"
                vcounts[key] += 1
                violations.append({"key": key, "msg": f"state monitor fired inside the repository's own test {v.get('test')}: {v['kind']} in {v['op']}",
                                   "detail": v.get("detail", {}), "case": {"repo_test": v.get("test")}})
    budget = reports[0]["step_budget"] if reports else None
    # ---- classify violations
    known = known_open(prop)
    by_key = {}
    for v in violations:
        by_key.setdefault(v["key"], []).append(v)
    new_keys = [k for k in by_key if k not in known]
    lines = []
    for k in sorted(by_key):
        if k in known:
            lines.append(f"KNOWN-FINDING: property={prop} {known[k]['what']} [key={k}; {vcounts.get(k, len(by_key[k]))} witnesses this run]")
    replay_paths = []
    for rank_, k in enumerate(sorted(new_keys)[:40]):
        v = sorted(by_key[k], key=lambda x: len(json.dumps(x["case"], default=str)))[0]
        h = hashlib.sha1(json.dumps(v["case"], sort_keys=True, default=str).encode()).hexdigest()[:10]
        path = os.path.join(outdir, f"{sanitize(k)}-{h}.json")
        with open(path, "w") as fh:
            json.dump({"property": prop, "key": k, "msg": v["msg"], "detail": v["detail"], "case": v["case"], "tier": tier,
                       "seed": seed, "idx": v.get("idx"), "witnesses": vcounts.get(k)}, fh, indent=1, default=str)
        replay_paths.append(path)
        if rank_ < 6 and os.environ.get("VERIF_MINIMISE", "1") == "1":
            try:  # greedy shrinking of the history-like lists; bounded, best effort, never changes the verdict
                subprocess.run([PY, "-B", "-m", "vmon.minimise", path], cwd=HERE, env=worker_env(), capture_output=True, timeout=180)
            except Exception:
                pass
        if rank_ < 10:
            lines.append(f"VIOLATION property={prop} replay={path}")
            lines.append(f"  key={k} witnesses={vcounts.get(k)} :: {v['msg'][:300]}")
        elif rank_ == 10:
            lines.append(f"  ... {len(new_keys) - 10} more violation keys, replay files in {outdir}")
    # ---- verdict inputs
    anchors = getattr(mod, "ANCHORS", [])
    anchor_reach = {a: sum(n for q, n in reach.items() if q.endswith(a)) for a in anchors}
    wall = time.time() - t0
    coverage = {
        "evaluations": evaluations,
        "distinct_nontrivial": len(digests),
        "rule": mod.RULE,
        "samples": samples[:4],
        "oracle_comparisons": counters.get("oracle_comparisons", 0),
        "counters": dict(counters),
        "input_classes": dict(classes),
        "monitored_api_events": dict(events),
        "anchor_reach": anchor_reach,
        "reach_functions_entered": len([q for q, n in reach.items() if n]),
        "max_loop_steps_per_call": max_steps,
        "loop_step_budget": budget,
        "loop_functions_monitored": sorted(loopf),
        "numeric_sanitizer_fp_events": dict(fp),
        "known_finding_hits": {k: vcounts.get(k, 0) for k in by_key if k in known},
        "new_violation_keys": {k: vcounts.get(k, 0) for k in new_keys},
        "planned_cases": ncases,
        "cases_skipped_by_deadline": skipped,
        "workers": jobs,
        "workers_lost": len(dead),
        "internal_errors": len(internal),
        "repo": repo_path(),
        "exhaustive": False,
    }
    coverage.update(getattr(mod, "EXTRA_COVERAGE", {}))
    enum = getattr(mod, "ENUMERATED", {}).get(tier)
    if enum:
        enum = enum(ncases) if callable(enum) else enum
        size, what = enum[0], enum[1]
        need = enum[2] if len(enum) > 2 else size  # number of planned cases that covers the whole sub-space
        coverage["enumerated_subspace"] = {"what": what, "size": size, "cases_needed": need,
                                           "completed": bool(need <= ncases and skipped == 0 and not dead and not internal)}
    assumptions = list(getattr(mod, "ASSUMPTIONS", [])) + [
        "trusted base: vmon/ref.py (self-tested), CPython fractions, the monitor wrappers",
        "inputs outside the generated classes / bounds of DESIGN.md section 4 are not explored",
    ]
    write_evidence(prop, tier, seed, coverage, wall, len(new_keys), assumptions)
    for ln in lines:
        print(ln)
    shutil.rmtree(tmp, ignore_errors=True) if not (dead or internal) else None
    summary = (f"{prop} tier={tier} seed={seed}: {evaluations} cases ({len(digests)} distinct non-trivial), "
               f"{counters.get('oracle_comparisons', 0)} oracle comparisons, {sum(events.values())} monitored API events, "
               f"{len(by_key) - len(new_keys)} known-finding keys, {len(new_keys)} new violation keys, {wall:.1f}s")
    print(summary)
    if new_keys:
        return 1
    # ---- inconclusive conditions (never folded into held)
    if dead:
        return inconclusive(prop, f"{len(dead)} worker(s) lost: {dead[0][1][:300]!r}")
    if internal:
        first = next((e for e in internal if "tb" in e), internal[0])
        print(first.get("tb", ""), file=sys.stderr)
        return inconclusive(prop, f"{len(internal)} internal error(s) in the check itself (see stderr / {tmp})")
    if missing:
        return inconclusive(prop, f"monitored attributes missing: {sorted(missing)[:5]}")
    floor = max(1, int(ncases * getattr(mod, "FLOOR", 0.3)))
    if evaluations < floor:
        return inconclusive(prop, f"only {evaluations} of {ncases} planned cases ran (floor {floor})")
    if counters.get("oracle_comparisons", 0) == 0:
        return inconclusive(prop, "no oracle comparison was performed")
    if len(digests) < 2:
        return inconclusive(prop, "fewer than 2 distinct non-trivial cases")
    if counters.get("case_timeouts", 0) > max(3, evaluations // 50):
        return inconclusive(prop, f"{counters['case_timeouts']} cases hit the per-case wall-clock backstop")
    for a, n in anchor_reach.items():
        if n == 0:
            return inconclusive(prop, f"anchored mechanism {a} was never entered")
    for name, minimum in getattr(mod, "MIN_COUNTERS", {}).items():
        if counters.get(name, 0) < minimum:
            return inconclusive(prop, f"deciding counter {name}={counters.get(name, 0)} below floor {minimum}")
    return 0


def run_repo_tests(tmp):
    """pytest of the tree under test with vmon.pytest_plugin (M1, M3, M4 attached)"""
    rep = os.path.join(tmp, "repo-tests.json")
    env = worker_env()
    env["VMON_REPORT"] = rep
    try:
        p = subprocess.run([PY, "-B", "-m", "pytest", "-q", "-p", "no:cacheprovider", "-p", "vmon.pytest_plugin", "--timeout=900"],
                           cwd=repo_path(), env=env, capture_output=True, text=True, timeout=3600)
    except subprocess.TimeoutExpired:
        return {"error": "repository tests under monitors timed out"}
    if not os.path.exists(rep):
        return {"error": "repository tests under monitors produced no report: " + (p.stdout + p.stderr)[-600:]}
    with open(rep) as fh:
        return json.load(fh)


def replay(path):
    sys.path.insert(0, HERE)
    with open(path) as fh:
        doc = json.load(fh)
    prop = doc["property"]
    code = (
        "import sys, json\n"
        "from vmon import attach, worker\n"
        f"doc = json.load(open({path!r}))\n"
        "mod = worker.load_check(doc['property'])\n"
        "S = attach.attach(budget=getattr(mod, 'STEP_BUDGET', None))\n"
        "ctx, err = worker.run_one(mod, doc['case'], doc['property'], doc.get('tier', 'quick'), S)\n"
        "print(json.dumps({'violations': ctx.violations, 'err': err}, default=str))\n"
    )
    p = subprocess.run([PY, "-B", "-c", code], cwd=HERE, env=worker_env(), capture_output=True, text=True, timeout=1800)
    if p.returncode != 0:
        print(p.stdout[-2000:], p.stderr[-2000:])
        return inconclusive(prop, "replay worker failed")
    res = json.loads(p.stdout.strip().splitlines()[-1])
    known = known_open(prop)
    bad = [v for v in res["violations"] if v["key"] not in known]
    for v in res["violations"]:
        tag = "KNOWN-FINDING:" if v["key"] in known else "witness:"
        print(f"{tag} property={prop} key={v['key']} :: {v['msg']} :: {json.dumps(v['detail'], default=str)[:600]}")
    if bad:
        print(f"VIOLATION property={prop} replay={os.path.abspath(path)}")
        return 1
    if res["err"]:
        print(res["err"], file=sys.stderr)
        return inconclusive(prop, "internal error during replay")
    print(f"replay of {path}: no violation")
    return 0


def main(argv=None):
    ap = argparse.ArgumentParser()
    ap.add_argument("prop", nargs="?")
    ap.add_argument("--tier", default=os.environ.get("VERIF_TIER", "quick"), choices=["quick", "thorough"])
    ap.add_argument("--seed", type=int, default=int(os.environ.get("VERIF_SEED", "0")))
    ap.add_argument("--jobs", type=int, default=int(os.environ.get("VERIF_JOBS", "16")))
    ap.add_argument("--replay")
    a = ap.parse_args(argv)
    if a.replay:
        return replay(a.replay)
    if not a.prop:
        ap.error("property id required")
    return run_check(a.prop.upper(), a.tier, a.seed, a.jobs)


if __name__ == "__main__":
    sys.exit(main())
