"""Run one case (JSON on stdin) in this fresh interpreter with tracing on; print the per-call hashes of everything the
monitored public API returned.  Used by the history-independence monitor of vmon.worker."""
import json
import sys


def main():
    prop, tier = sys.argv[1:3]
    case = json.load(sys.stdin)
    from . import attach, worker

    mod = worker.load_check(prop)
    S = attach.attach(budget=getattr(mod, "STEP_BUDGET", None))
    attach.S.trace = []
    ctx = worker.Ctx(prop, tier)
    worker.setup_case(case)
    try:
        mod.run_case(case, ctx)
    except BaseException:
        pass
    trace, attach.S.trace = attach.S.trace, None
    print(json.dumps({"hashes": worker.trace_hashes(trace), "events": [worker.lib_short(ev, 300) for ev in trace]}))


if __name__ == "__main__":
    main()
