"""
Seeded generators for the input classes of DESIGN.md section 4.
Pure python / Fractions; never imports the library.
"""
import itertools
from fractions import Fraction as F

from . import ref

INTERVALS = [(F(0), F(1)), (F(-1), F(1)), (F(1), F(3)), (F(-2), F(0)), (F(0), F(3)), (F(-3), F(-1, 2))]
GRIDS = [2, 3, 4, 5, 6, 7, 8, 12, 16, 60]


# intervals near the bounds of DESIGN 4 (|knot| <= 1e3, distinct knots >= 1e-3 apart): far from 0, short, tiny around 0
EXTREME_INTERVALS = [(F(999), F(1000)), (F(-1000), F(-998)), (F(0), F(1, 10)), (F(-1, 20), F(1, 20)), (F(-500), F(500))]


def interval(rng):
    if rng.random() < 0.12:
        return rng.choice(EXTREME_INTERVALS)
    return rng.choice(INTERVALS)


def interior_values(rng, a, b, k, grid=None, want_zero=None):
    """k distinct values strictly inside (a,b) on a rational grid, non uniform; 0 included when it is interior
    (probability 1/2, or forced by want_zero)"""
    if k == 0:
        return []
    grid = grid or rng.choice([g for g in GRIDS if g - 1 >= k] or [60])
    cands = [a + (b - a) * F(i, grid) for i in range(1, grid)]
    if len(cands) < k:
        grid = 60
        cands = [a + (b - a) * F(i, grid) for i in range(1, grid)]
    vals = set(rng.sample(cands, k))
    if a < 0 < b and (want_zero if want_zero is not None else rng.random() < 0.5):
        if 0 not in vals:
            vals.pop()
            vals.add(F(0))
    return sorted(vals)


def patterns(p, k):
    """every multiplicity pattern of k interior knots for degree p"""
    return list(itertools.product(range(1, p + 2), repeat=k))


def kv_from(a, b, p, knots, mults):
    U = [a] * (p + 1)
    for k, m in zip(knots, mults):
        U += [k] * m
    U += [b] * (p + 1)
    return U


LARGE_P = 0.0  # set by the worker from the check's LARGE attribute: share of the free-size vectors drawn from the large class
LARGE_MAX = 64  # ... and the largest number of control points of that class (LARGE = (share, max) in the check)


def kv(rng, p=None, nint=None, itv=None, pmax=4, nintmax=4, maxmult=None, want_zero=None, large=True):
    """random clamped knot vector (list of Fractions). Large class (only when the caller leaves degree and size free):
    degree up to 8, 9..28 distinct interior knots, 17..64 control points - beyond every size threshold a "fast path"
    could sit at (16, 32, 48)"""
    large = large and LARGE_P and p is None and nint is None and rng.random() < LARGE_P
    if large:
        # the capped variant (checks whose operations are cubic or worse in exact arithmetic) stays at degree <= 5
        p = rng.choice([5, 6, 7, 8, rng.randint(0, 4), rng.randint(1, 4)]) if LARGE_MAX >= 40 else (rng.choice([1, 2, 3, 3, 4, 5]) if LARGE_MAX >= 22 else rng.choice([1, 2, 2, 3]))
        nint = rng.randint(9, 28) if LARGE_MAX >= 40 else rng.randint(max(9, 17 - p), max(10, LARGE_MAX - p - 1))
    p = rng.randint(0, pmax) if p is None else p
    nint = rng.randint(0, nintmax) if nint is None else nint
    a, b = itv or interval(rng)
    ks = interior_values(rng, a, b, nint, want_zero=want_zero)
    mm = p + 1 if maxmult is None else max(1, min(p + 1, maxmult))
    style = rng.random()
    mults = []
    for _ in ks:
        if large:
            mults.append(1 if rng.random() < 0.75 else rng.randint(1, mm))
        elif style < 0.35:
            mults.append(1)
        elif style < 0.5:
            mults.append(mm)
        else:
            mults.append(rng.randint(1, mm))
    if large:
        while sum(mults) + p + 1 > LARGE_MAX:
            i = max(range(len(mults)), key=lambda j: mults[j])
            if mults[i] > 1:
                mults[i] -= 1
            else:
                mults.pop()
                ks.pop()
    return kv_from(a, b, p, ks, mults)


def small_rational(rng, big=False):
    if big:
        return F(rng.randint(-(10**12), 10**12), rng.randint(1, 10**12))
    r = rng.random()
    if r < 0.5:
        return F(rng.randint(-9, 9))
    return F(rng.randint(-20, 20), rng.choice([2, 3, 4, 5, 7]))


def points(rng, n, dim=0, big=False):
    """dim 0: scalars; dim>=1: list of lists"""
    if dim == 0:
        return [small_rational(rng, big) for _ in range(n)]
    return [[small_rational(rng, big) for _ in range(dim)] for _ in range(n)]


def weights(rng, n, maxratio=45):
    pool = [F(1), F(2), F(3), F(1, 2), F(3, 2), F(5), F(1, 3), F(2, 3), F(7, 2), F(9), F(1, 5)]
    if maxratio <= 9:
        pool = [F(1), F(2), F(3), F(1, 2), F(3, 2), F(2, 3), F(1, 3), F(5, 2)]
    r = rng.random()
    if n > 1 and r < 0.12:
        # all weights equal but not 1: the curve is a polynomial spline stored as a rational one
        return [rng.choice([x for x in pool if x != 1])] * n
    if n > 1 and r < 0.2:
        # one weight differs from all the others
        c = rng.choice(pool)
        w = [c] * n
        w[rng.randrange(n)] = rng.choice([x for x in pool if x != c])
        return w
    w = [rng.choice(pool) for _ in range(n)]
    if all(x == w[0] for x in w) and n > 1 and rng.random() < 0.8:
        w[rng.randrange(n)] = w[0] * 2
    return w


def curve(rng, p=None, nint=None, dim=None, rational=None, itv=None, pmax=4, nintmax=4, maxmult=None, big=False, wratio=45, want_zero=None, magnitudes=False, large=True):
    """dict(U, P, W) with exact numbers; magnitudes=True: 8% of the curves get control values of size 1e-9 or 1e6"""
    U = kv(rng, p, nint, itv, pmax, nintmax, maxmult, want_zero, large)
    pp, n = ref.wellformed(U)
    dim = rng.choice([0, 0, 2, 3]) if dim is None else dim
    rational = (rng.random() < 0.4) if rational is None else rational
    if n > 16 and LARGE_MAX < 40:
        rational = False  # capped large class: polynomial curves only (rational products explode in exact arithmetic)
    P = points(rng, n, dim, big)
    if magnitudes and rng.random() < 0.08:
        sc = rng.choice([F(1, 10**9), F(10**6)])
        P = [[c * sc for c in pt] if isinstance(pt, list) else pt * sc for pt in P]
    return {"U": U, "P": P, "W": weights(rng, n, wratio) if rational else None}


def probe_params(U, per_span=None):
    """every knot, both ends, p+2 points inside every span, points next to every knot"""
    p = ref.degree(U)
    ks = ref.distinct(U)
    out = list(ks)
    per_span = p + 2 if per_span is None else per_span
    for a, b in zip(ks, ks[1:]):
        out += ref.sample_points(a, b, per_span - 1)
        eps = (b - a) / 1000
        out += [a + eps, b - eps]
    return sorted(set(out))


def outside_params(U, exact=False):
    """parameters outside [umin, umax]: far away and as close as the number type resolves (1e-12 is more than 4 ulp
    of any knot in the bounds of DESIGN section 4; the 1e-30 offsets only exist in exact arithmetic)"""
    a, b = U[0], U[-1]
    near = [b + F(1, 10**12), a - F(1, 10**12), b + F(1, 10**9), a - F(1, 10**7)]
    if exact:
        near += [b + F(1, 10**30), a - F(1, 10**30)]
    return [a - F(1, 1000), b + F(1, 1000)] + near + [a - 1, b + 1, F(10**6), F(-(10**6))]


def numtype(rng, U=None, allow=("frac", "frac", "float", "npfloat", "int")):
    t = rng.choice(allow)
    if t == "int" and U is not None and any(F(x).denominator != 1 for x in U):
        return "frac"
    return t


def integer_kv(rng, pmax=4, nintmax=4):
    """knot vector with integer knots (for the int class)"""
    p = rng.randint(0, pmax)
    nint = rng.randint(0, nintmax)
    a = rng.choice([0, -2, 1, -5])
    ks = list(range(a + 1, a + 1 + nint))
    b = a + 1 + nint
    mults = [rng.randint(1, p + 1) for _ in ks]
    return kv_from(F(a), F(b), p, [F(k) for k in ks], mults)


def well_conditioned(U, W=None):
    """the class on which float verdicts are given (DESIGN 4)"""
    p = ref.degree(U)
    ks = ref.distinct(U)
    if p > 3 or len(ks) - 2 > 4:
        return False
    L = ks[-1] - ks[0]
    if min(b - a for a, b in zip(ks, ks[1:])) < L / 60:
        return False
    if L > 10 or L < F(1, 20) or max(abs(ks[0]), abs(ks[-1])) > 100:
        return False  # absolute tolerances of the library (1e-9 on integrals over the interval) meet float noise there
    if W is not None and max(W) / min(W) > 9:
        return False
    return True
