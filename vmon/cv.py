"""Shared helpers for the curve checks (C04-C16): case building, state comparison, function comparison."""
from fractions import Fraction as F

import numpy as np

from . import gen, lib, ref
from .lib import call


def curve_case(rng, **kw):
    """random curve + number type as a JSON-able dict"""
    cur = gen.curve(rng, **kw)
    allow = kw.pop("_allow", None)
    return cur


def enc_curve(cur, nt):
    return {"U": lib.enc(cur["U"]), "P": lib.enc(cur["P"]), "W": lib.enc(cur["W"]), "numtype": nt}


def dec_curve(d):
    return lib.dec(d["U"]), lib.dec(d["P"]), lib.dec(d["W"]), d["numtype"]


def label(U, P, W, nt):
    p = ref.degree(U)
    ks = ref.distinct(U)
    maxm = max([m for _, m in ref.runs(U)[1:-1]] or [0])
    zero = "z" if (U[0] < 0 < U[-1] and 0 in U) else ""
    return f"p{p}|int{len(ks) - 2}|mm{maxm}{zero}|{'rat' if W is not None else 'poly'}|{nt}|{'vec' if isinstance(P[0], list) else 'scal'}"


def build(ctx, d):
    """-> (curve, rc, exact) or None (violation reported)"""
    U, P, W, nt = dec_curve(d)
    if (len(U) + len(str(P[0]))) % 2 == 0 and hasattr(ctx, "watch"):
        # half of the curves are built on a KnotVector object they share with a bystander curve, which must come out of
        # the case untouched (Curve operations rebind, they never write into the shared object)
        o = call(_with_bystander, ctx, U, P, W, nt)
    else:
        o = call(lib.mk_curve, U, P, W, nt)
    if not ctx.check(o.ok, f"construct:{o.exc_name}", f"valid curve rejected: {o.brief()}"):
        return None
    return o.value, lib.case_rc(U, P, W, nt), nt == "frac"


def bystander(ctx, curve):
    """a second curve on the very KnotVector object `curve` holds now, watched until the case ends"""
    m = lib.nurbs()
    kv = curve.knotvector
    P = curve.ctrlpoints
    if P is None or not hasattr(ctx, "watch"):
        return
    o = call(m.Curve, kv, list(P)[::-1])
    if o.ok and o.value.knotvector is kv:
        ctx.watch(o.value, "curve built on the same KnotVector object")
        ctx.count("bystanders_late")


def _with_bystander(ctx, U, P, W, nt):
    m = lib.nurbs()
    kv = m.KnotVector(lib.nums(U, "frac" if nt == "fracint" else nt))
    c = m.Curve(kv, lib.mk_points(P, nt), None if W is None else lib.nums(W, nt))
    sib = m.Curve(kv, lib.mk_points(P[::-1], nt))
    ctx.watch(sib, "curve built on the same KnotVector object")
    return c


def state_rc(ctx, curve, what):
    """reference curve of the library curve's current state, or None (violation reported)"""
    try:
        return lib.to_rc(curve)
    except Exception as e:
        ctx.check(False, f"state:malformed:{what}", f"{what}: curve state is not a consistent curve: {e!r}; {lib.short(lib.curve_state(curve), 300)}")
        return None


def exact_state(curve):
    """path of the first float in the curve state, or None"""
    U, P, W = lib.curve_state(curve)
    return lib.find_float(U, "knotvector") or lib.find_float(P, "ctrlpoints") or lib.find_float(W, "weights")


def knots_match(actual, expected, exact):
    """library knot list vs expected list of Fractions"""
    if len(actual) != len(expected):
        return f"knot vector has {len(actual)} entries, expected {len(expected)}"
    try:
        img = [ref.fr(a) for a in actual]
    except (TypeError, ValueError):
        return "non numeric knot"
    if exact:
        if img != expected:
            return f"knot vector {lib.short(img)} != {lib.short(expected)}"
        return None
    if [m for _, m in ref.runs(img)] != [m for _, m in ref.runs(expected)]:
        return f"multiplicities {[m for _, m in ref.runs(img)]} != {[m for _, m in ref.runs(expected)]}"
    for a, e in zip(img, expected):
        if abs(a - e) > F(1, 10**11) * max(1, abs(e)):
            return f"knot {float(a)!r} != {float(e)!r}"
    return None


def scale_of(rc):
    return max([1.0] + [abs(float(c)) for pt in rc.P for c in pt])


def function_diff(a, b, exact, rel=1e-9):
    """None when the reference curves a and b are the same function (exactly, or within rel*scale at
    d+1 points per span for float classes); else a description"""
    if exact:
        d = ref.first_difference(a, b)
        return None if d is None else f"curves differ: {lib.short(d, 300)}"
    if a.limits != b.limits:
        # float classes: limits may differ by rounding only
        if any(abs(x - y) > F(1, 10**11) * max(1, abs(x)) for x, y in zip(a.limits, b.limits)):
            return f"intervals differ {a.limits} vs {b.limits}"
    lo = max(a.limits[0], b.limits[0])
    hi = min(a.limits[1], b.limits[1])
    br = [k for k in ref.merged_breaks(a.breaks(), b.breaks()) if lo <= k <= hi]
    # merge break points that differ by rounding only
    mb = []
    for k in br:
        if mb and k - mb[-1] < F(1, 10**9):
            continue
        mb.append(k)
    sc = max(scale_of(a), scale_of(b))
    d = max(a.p, b.p)
    for x0, x1 in zip(mb, mb[1:]):
        for x in ref.sample_points(x0, x1, min(d, 3)):
            va, vb = a(x), b(x)
            for ca, cb in zip(va, vb):
                if abs(float(ca) - float(cb)) > rel * sc:
                    return f"curves differ at u={float(x)}: {float(ca)!r} vs {float(cb)!r}"
    return None


def lib_eval_matches(ctx, curve, rc, exact, key, n=4, rel=1e-9):
    """the library's own evaluation of `curve` agrees with the reference curve rc (ties the check to C01)"""
    br = rc.breaks()
    pts = []
    for a, b in zip(br, br[1:]):
        pts += ref.sample_points(a, b, 1)
    pts = pts[:: max(1, len(pts) // n)] + [br[0], br[-1]]
    for x in pts:
        un = x if exact else float(x)
        o = call(curve, un)
        if not ctx.check(o.ok, f"{key}:eval-raises:{o.exc_name}", f"evaluation after the operation raised {o.brief()} at u={x}"):
            return False
        want = rc(ref.fr(un))
        if not ctx.check(lib.same_point(o.value, want, exact, rel), f"{key}:eval", f"library evaluation {lib.short(o.value)} != reference {lib.short(want)} at u={x}"):
            return False
    return True


def points_of(curve):
    P = curve.ctrlpoints
    return None if P is None else [lib.pt_tuple(p) for p in P]


def unchanged(ctx, curve, pre, key, what):
    return ctx.check(lib.curve_digest(curve) == pre, key, f"{what}: the curve was modified", before=lib.short(pre, 300), after=lib.short(lib.curve_digest(curve), 300))


def pick_numtype(rng, U, p_float=0.3):
    r = rng.random()
    if r < p_float:
        return rng.choice(["float", "float", "npfloat"])
    return "frac"
