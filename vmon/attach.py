"""
Always-on monitors (DESIGN.md section 5).

M1  state monitor      : every public method / operator / setter of KnotVector and Curve (and the calculus /
                         advanced entry points) is replaced *on the class object*, so aliases, internal calls and the
                         repository's own tests go through it. Checked at the outermost monitored frame only.
M2  logical step budget: sys.monitoring LINE events restricted to the code objects that contain a `while` loop.
M3  reach counters     : sys.monitoring PY_START on every function of the package (per-code local events).
M4  numeric sanitizer  : numpy floating point error callbacks (counted, behaviour unchanged).
"""
import ast
import functools
import importlib
import inspect
import sys
import types
from collections import Counter, deque

import numpy as np

from . import ref
from .lib import StepBudgetExceeded, curve_digest, kv_digest, short

MODULES = ["heavy", "knotspace", "functions", "curves", "calculus", "advanced"]

# ------------------------------------------------------------------ state shared by the monitors
class State:
    def __init__(self):
        self.depth = 0
        self.events = Counter()  # (class.method, outcome) -> n
        self.tail = deque(maxlen=40)
        self.violations = []  # dicts
        self.steps = 0
        self.max_steps = 0
        self.budget = 2_000_000
        self.reach = Counter()
        self.fp_events = Counter()
        self.attached = False
        self.missing = []  # monitored attributes that no longer exist
        self.enabled = True
        self.budget_hits = 0  # StepBudgetExceeded injections so far
        self.trace = None  # list of (operation, outcome, result digest) of outermost monitored calls while tracing


S = State()


def _result_digest(x, depth=0):
    """representation independent of object identity, for the history-independence monitor"""
    from .lib import digest

    if _is_curve(x):
        return ("curve",) + curve_digest(x)
    if _is_kv(x):
        return ("kv", kv_digest(x))
    if isinstance(x, (list, tuple)) and depth < 3:
        return tuple(_result_digest(y, depth + 1) for y in x[:64])
    if x is None or isinstance(x, (bool, int, float, str)) or type(x).__module__ in ("fractions", "numpy"):
        return digest(x)
    return ("obj", type(x).__name__)

# ------------------------------------------------------------------ M1
CURVE_MUTATORS = [
    "knot_insert", "knot_remove", "knot_clean", "degree_increase", "degree_decrease", "degree_clean", "clean",
    "fit_curve", "fit_function", "fit_points", "fit", "update",
]
CURVE_PURE = [
    "eval", "__call__", "split", "fraction", "__eq__", "__ne__", "__neg__", "__add__", "__radd__", "__sub__",
    "__rsub__", "__mul__", "__rmul__", "__matmul__", "__rmatmul__", "__truediv__", "__rtruediv__", "__or__",
    "__copy__", "__deepcopy__", "__str__",
]
CURVE_SETTERS = ["knotvector", "degree", "weights", "ctrlpoints"]
KV_MUTATORS = ["insert", "remove", "shift", "scale", "normalize", "convert", "__iadd__", "__isub__", "__imul__",
               "__itruediv__", "__ior__", "__iand__"]
KV_PURE = ["span", "mult", "valid", "split", "__add__", "__sub__", "__mul__", "__rmul__", "__truediv__", "__or__",
           "__and__", "__eq__", "__copy__", "__deepcopy__"]
KV_SETTERS = ["degree"]
STATIC_PURE = {
    "heavy": {"NodeSample": ["closed_linspace", "open_linspace", "chebyshev", "gauss_legendre"],
              "IntegratorArray": ["closed_newton_cotes", "open_newton_cotes", "chebyshev", "gauss_legendre"]},
    "calculus": {"Derivate": ["__new__", "curve"], "Integrate": ["scalar", "lenght", "density", "function"]},
    "advanced": {"Projection": ["point_on_curve", "point_on_bezier"], "Intersection": ["curve_and_curve", "bcurve_and_bcurve"]},
}


def _is_curve(x):
    return hasattr(x, "_BaseCurve__knotvector")


def _is_kv(x):
    return hasattr(x, "_KnotVector__internal")


def _snap(x):
    if _is_curve(x):
        return ("curve", curve_digest(x), id(x._BaseCurve__knotvector))
    if _is_kv(x):
        return ("kv", kv_digest(x))
    return None


def _operands(args, kwargs):
    out = []
    for a in list(args) + list(kwargs.values()):
        if _is_curve(a) or _is_kv(a):
            out.append(a)
        elif isinstance(a, (list, tuple)) and len(a) <= 8:
            for b in a:
                if _is_curve(b) or _is_kv(b):
                    out.append(b)
    return out


def curve_invariant(c):
    """None when consistent, else a description"""
    kv = c._BaseCurve__knotvector
    U = list(kv._KnotVector__internal)
    wf = ref.wellformed(U)
    if wf is None:
        return f"knot vector not well formed: {short(U)}"
    p, n = wf
    try:
        if kv.degree != p or kv.npts != n:
            return f"degree/npts {kv.degree}/{kv.npts} disagree with the knot list ({p}/{n})"
    except Exception as e:  # pragma: no cover
        return f"degree/npts raise {e!r}"
    P = c._BaseCurve__ctrlpoints
    W = c._BaseCurve__weights
    if P is not None and len(P) != n:
        return f"len(ctrlpoints)={len(P)} != npts={n}"
    if W is not None and len(W) != n:
        return f"len(weights)={len(W)} != npts={n}"
    return None


def kv_invariant(kv):
    U = list(kv._KnotVector__internal)
    if ref.wellformed(U) is None:
        return f"knot vector not well formed: {short(U)}"
    return None


def _report(kind, name, detail):
    S.violations.append({"monitor": "M1", "kind": kind, "op": name, "detail": detail, "tail": list(S.tail)[-8:]})


def _wrap(name, fn, mutating, has_self=True):
    @functools.wraps(fn)
    def wrapper(*args, **kwargs):
        if not S.enabled or S.depth > 0:
            S.depth += 1
            try:
                return fn(*args, **kwargs)
            finally:
                S.depth -= 1
        # outermost monitored frame
        S.steps = 0
        recv = args[0] if (has_self and args) else None
        try:
            ops = _operands(args[1:] if has_self else args, kwargs)
            pre_recv = _snap(recv) if recv is not None else None
            pre_ops = [(o, _snap(o)) for o in ops]
        except Exception as e:  # the monitor must never change behaviour
            S.violations.append({"monitor": "M1", "kind": "monitor-error", "op": name, "detail": "pre-snapshot: " + repr(e)})
            recv, pre_recv, pre_ops = None, None, []
        S.depth += 1
        outcome = "ok"
        result = None
        try:
            result = fn(*args, **kwargs)
            return result
        except StepBudgetExceeded:
            outcome = "StepBudgetExceeded"
            raise
        except BaseException as e:
            outcome = type(e).__name__
            raise
        finally:
            S.depth -= 1
            S.events[(name, outcome)] += 1
            S.tail.append(f"{name}:{outcome}")
            if S.trace is not None:
                try:
                    S.trace.append((name, outcome, _result_digest(result), _snap(recv)[1] if recv is not None and _snap(recv) else None))
                except Exception as e:
                    S.trace.append((name, outcome, "digest-error " + type(e).__name__, None))
            try:
                _post(name, mutating, recv, pre_recv, pre_ops, outcome, result)
            except Exception as e:  # the monitor must never change behaviour
                S.violations.append({"monitor": "M1", "kind": "monitor-error", "op": name, "detail": repr(e)})

    wrapper.__vmon__ = True
    return wrapper


def _result_kvs(x, depth=0, out=None):
    """the mutable KnotVector objects reachable from a returned value"""
    out = [] if out is None else out
    if _is_curve(x):
        out.append(x._BaseCurve__knotvector)
    elif _is_kv(x):
        out.append(x)
    elif isinstance(x, (list, tuple)) and depth < 2:
        for y in x[:64]:
            _result_kvs(y, depth + 1, out)
    return out


def _alias_probe(name, result, recv, pre_recv, pre_ops):
    """M7: what a non-mutating operation returns must not share mutable state with its operands. Every KnotVector
    reachable from the result is reparametrised in place (shift, a public in-place operation that is always legal), the
    operands are compared with their snapshots taken before the call, and the result is put back exactly."""
    kvs = _result_kvs(result)
    if not kvs:
        return
    sources = ([(recv, pre_recv)] if recv is not None and pre_recv is not None else []) + [(o, pre) for o, pre in pre_ops if o is not recv]
    if not sources:
        return
    seen = set()
    S.enabled = False
    try:
        for kv in kvs:
            if id(kv) in seen:
                continue
            seen.add(id(kv))
            saved = kv._KnotVector__internal
            try:
                kv.shift(1)
            except Exception:
                kv._KnotVector__internal = saved
                continue
            S.events[("M7.alias_probe", "done")] += 1
            try:
                for o, pre in sources:
                    if _snap(o)[1] != pre[1]:
                        _report("result-aliases-operand", name, {"what": "an in-place shift of the returned object's knot vector changed an operand",
                                                                 "before": short(pre[1], 300), "after": short(_snap(o)[1], 300)})
                        break
            finally:
                kv._KnotVector__internal = saved
    finally:
        S.enabled = True


def _post(name, mutating, recv, pre_recv, pre_ops, outcome, result=None):
    if outcome == "StepBudgetExceeded":
        return
    if outcome == "ok" and not mutating and result is not None:
        _alias_probe(name, result, recv, pre_recv, pre_ops)
    if recv is not None and pre_recv is not None:
        post = _snap(recv)
        if outcome != "ok" and post[1] != pre_recv[1]:
            _report("not-atomic", name, {"exception": outcome, "before": short(pre_recv[1], 400), "after": short(post[1], 400)})
        elif outcome == "ok" and not mutating and post[1] != pre_recv[1]:
            _report("receiver-modified", name, {"before": short(pre_recv[1], 400), "after": short(post[1], 400)})
        inv = curve_invariant(recv) if pre_recv[0] == "curve" else kv_invariant(recv)
        if inv:
            _report("invariant", name, {"outcome": outcome, "what": inv})
    for o, pre in pre_ops:
        if o is recv:
            continue
        post = _snap(o)
        if post[1] != pre[1]:
            _report("operand-modified", name, {"outcome": outcome, "before": short(pre[1], 400), "after": short(post[1], 400)})


def _patch_class(cls, mutators, pure, setters):
    cname = cls.__name__
    for mname, mut in [(m, True) for m in mutators] + [(m, False) for m in pure]:
        owner = None
        for k in cls.__mro__:
            if mname in k.__dict__:
                owner = k
                break
        if owner is None or owner is object:
            S.missing.append(f"{cname}.{mname}")
            continue
        fn = owner.__dict__[mname]
        if getattr(fn, "__vmon__", False):
            continue
        if isinstance(fn, (staticmethod, classmethod)) or not callable(fn):
            continue
        setattr(owner, mname, _wrap(f"{cname}.{mname}", fn, mut))
    for pname in setters:
        owner = None
        for k in cls.__mro__:
            if pname in k.__dict__ and isinstance(k.__dict__[pname], property):
                owner = k
                break
        if owner is None:
            S.missing.append(f"{cname}.{pname} (property)")
            continue
        prop = owner.__dict__[pname]
        if prop.fset is None or getattr(prop.fset, "__vmon__", False):
            continue
        setattr(owner, pname, property(prop.fget, _wrap(f"{cname}.{pname}=", prop.fset, True), prop.fdel, prop.__doc__))


def _patch_static(mod, cname, names):
    cls = getattr(mod, cname, None)
    if cls is None:
        S.missing.append(f"{mod.__name__}.{cname}")
        return
    for n in names:
        raw = cls.__dict__.get(n)
        if raw is None:
            S.missing.append(f"{cname}.{n}")
            continue
        fn = raw.__func__ if isinstance(raw, (staticmethod, classmethod)) else raw
        if getattr(fn, "__vmon__", False):
            continue
        if n == "__new__":
            w = _wrap(f"{cname}.{n}", fn, False, has_self=False)
            setattr(cls, n, staticmethod(w))
        else:
            w = _wrap(f"{cname}.{n}", fn, False, has_self=False)
            setattr(cls, n, staticmethod(w) if isinstance(raw, staticmethod) else w)


# ------------------------------------------------------------------ M2 / M3
def _function_code_objects(mod):
    """every code object defined in the module (functions, methods, nested)"""
    seen = {}

    def walk(code):
        if code in seen:
            return
        seen[code] = True
        for c in code.co_consts:
            if isinstance(c, types.CodeType):
                walk(c)

    def from_obj(o):
        if isinstance(o, (staticmethod, classmethod)):
            o = o.__func__
        if isinstance(o, property):
            for f in (o.fget, o.fset, o.fdel):
                if f is not None:
                    from_obj(f)
            return
        o = inspect.unwrap(o) if callable(o) else o
        if isinstance(o, types.FunctionType) and o.__module__ == mod.__name__:
            walk(o.__code__)

    for v in list(vars(mod).values()):
        if inspect.isclass(v) and v.__module__ == mod.__name__:
            for a in list(vars(v).values()):
                from_obj(a)
        else:
            from_obj(v)
    return list(seen)


def _while_functions(mod):
    """(name, firstlineno) of every function whose body contains a `while`"""
    try:
        src = inspect.getsource(mod)
    except (OSError, TypeError):
        return set()
    out = set()
    for node in ast.walk(ast.parse(src)):
        if isinstance(node, (ast.FunctionDef, ast.AsyncFunctionDef)):
            if any(isinstance(n, ast.While) for n in ast.walk(node)):
                first = node.lineno if not node.decorator_list else min(d.lineno for d in node.decorator_list)
                out.add((node.name, node.lineno))
                out.add((node.name, first))
    return out


# Euclid's loop on big integers dominates exact linear algebra (millions of iterations in one knot_clean) and
# always terminates; counting it would only force a useless large budget on the loops that can really hang
STEP_EXEMPT = {"Math.gcd"}
STEP_TOOL = 3
REACH_TOOL = 4


def _line_cb(code, line):
    S.steps += 1
    if S.steps > S.max_steps:
        S.max_steps = S.steps
    if S.steps > S.budget:
        S.steps = 0
        S.budget_hits += 1
        raise StepBudgetExceeded(f"more than {S.budget} loop line events in {code.co_qualname}")


def _start_cb(code, offset):
    S.reach[code.co_qualname] += 1


def reset_steps():
    S.steps = 0


# ------------------------------------------------------------------ M4
def _fp_cb(kind, flag):
    S.fp_events[kind] += 1


# ------------------------------------------------------------------ entry point
def attach(budget=None, reach=True):
    """idempotent; returns the shared state"""
    if S.attached:
        return S
    if budget:
        S.budget = budget
    mods = {m: importlib.import_module(f"compmec.nurbs.{m}") for m in MODULES}
    # M2 / M3 before M1 rebinding (code objects are those of the original functions either way)
    mon = sys.monitoring
    mon.use_tool_id(STEP_TOOL, "vmon-steps")
    mon.register_callback(STEP_TOOL, mon.events.LINE, _line_cb)
    if reach:
        mon.use_tool_id(REACH_TOOL, "vmon-reach")
        mon.register_callback(REACH_TOOL, mon.events.PY_START, _start_cb)
    S.loop_functions = []
    for name, mod in mods.items():
        whiles = _while_functions(mod)
        for code in _function_code_objects(mod):
            if reach:
                mon.set_local_events(REACH_TOOL, code, mon.events.PY_START)
            if (code.co_name, code.co_firstlineno) in whiles and code.co_qualname not in STEP_EXEMPT:
                mon.set_local_events(STEP_TOOL, code, mon.events.LINE)
                S.loop_functions.append(code.co_qualname)
    # M1
    ks, cv = mods["knotspace"], mods["curves"]
    _patch_class(ks.KnotVector, KV_MUTATORS, KV_PURE, KV_SETTERS)
    _patch_class(cv.Curve, CURVE_MUTATORS, CURVE_PURE, CURVE_SETTERS)
    for mname, classes in STATIC_PURE.items():
        for cname, names in classes.items():
            _patch_static(mods[mname], cname, names)
    # M4
    np.seterr(all="call")
    np.seterrcall(_fp_cb)
    S.attached = True
    return S


def drain_violations():
    v, S.violations = S.violations, []
    return v
