#!/bin/bash
# usage: tools/trymutant.sh <worktree-with-patch-applied> <PROP> [more props...]
# runs the quick checks of the given properties against a scratch tree (VERIF_REPO), never against /repo
WT=$1; shift
for P in "$@"; do
  VERIF_REPO=$WT /venv/bin/python -B -m vmon.run $P --tier quick 2>&1 | grep -E "VIOLATION|INCONCLUSIVE|KNOWN|tier=" | cut -c1-260 | head -8
  echo "exit=${PIPESTATUS[0]}"
done
