#!/usr/bin/env python3
"""append an entry to known_findings.json:  addfinding.py <prop> <status> <key> <what> <example> [commit-subject-prefix]"""
import json, subprocess, sys, os
HERE = os.path.dirname(os.path.dirname(os.path.abspath(__file__)))
prop, status, key, what, example = sys.argv[1:6]
commit = None
if len(sys.argv) > 6:
    log = subprocess.run(["git", "-C", "/repo", "log", "--format=%h %s"], capture_output=True, text=True).stdout.splitlines()
    m = [l for l in log if sys.argv[6] in l]
    assert len(m) == 1, m
    commit = m[0].split()[0]
path = os.path.join(HERE, "known_findings.json")
k = json.load(open(path))
e = {"property": prop, "status": status, "key": key, "what": (f"fixed: property={prop} {commit} " if status == "fixed" else "") + what, "example": example}
if commit:
    e["commit"] = commit
k["findings"].append(e)
json.dump(k, open(path, "w"), indent=1)
print(e)
