#!/bin/bash
# usage: tools/sweep.sh <tier> <seed> [props...]   -- runs checks one after another, prints the verdict lines
TIER=${1:-quick}; SEED=${2:-0}; shift; shift
PROPS=${@:-$(seq -f "C%02g" 1 20)}
for P in $PROPS; do
  VERIF_SEED=$SEED /venv/bin/python -B -m vmon.run $P --tier $TIER > /tmp/sweep_$P.log 2>&1; rc=$?
  grep -E "VIOLATION|INCONCLUSIVE|KNOWN-FINDING|  key=" /tmp/sweep_$P.log | cut -c1-300
  tail -1 /tmp/sweep_$P.log | cut -c1-250
  echo "$P exit=$rc"
done
