#!/usr/bin/env python3
"""keepseed.py <srcID> <seedname> <prop> <needs> <result> [note]  -> /verif/seeded/<seedname>/ (patch.diff, demo.py, notes.md, meta.json)"""
import json, os, shutil, subprocess, sys
src, name, prop, needs, result = sys.argv[1:6]
note = sys.argv[6] if len(sys.argv) > 6 else ""
HERE = os.path.dirname(os.path.dirname(os.path.abspath(__file__)))
d = os.path.join(HERE, "seeded", name)
os.makedirs(d, exist_ok=True)
for f in ("patch.diff", "demo.py", "notes.md"):
    p = os.path.join(os.environ.get("SEEDOUT", "/tmp/seedout"), src, f)
    if os.path.exists(p):
        shutil.copy(p, os.path.join(d, f))
head = subprocess.run(["git", "-C", "/repo", "rev-parse", "--short", "HEAD"], capture_output=True, text=True).stdout.strip()
meta = {
    "breaks_property": prop,
    "needs_to_manifest": needs,
    "written_by": "independent sub-agent given only the property text and a scratch worktree",
    "base_commit": head,
    "what_i_ran": [
        f"git -C /repo apply --check seeded/{name}/patch.diff   (applies to the repaired tree)",
        f"PYTHONPATH=/repo/src python seeded/{name}/demo.py      -> PASS (exit 0)",
        f"PYTHONPATH=<scratch worktree with the patch>/src python seeded/{name}/demo.py -> FAIL (exit 1)",
        "pytest in the scratch worktree -> 300 passed, 1 pre-existing failure (test_clstype)",
        f"VERIF_REPO=<scratch worktree> python -m vmon.run {prop} --tier quick",
    ],
    "result": result,
    "note": note,
}
json.dump(meta, open(os.path.join(d, "meta.json"), "w"), indent=1)
print("kept", d)
