#!/bin/bash
# Re-validate kept seeded changes against the current checks: each must make the quick check of its property (or of
# meta.check_with) exit 1.  Uses a scratch worktree under /tmp (never patches /repo).
# usage: tools/reseed.sh [name-prefix ...]   (no argument: all; results accumulate in out/reseed-rows, then seeded/STATUS.md is rebuilt)
ROWS=/verif/out/reseed-rows; mkdir -p $ROWS
WT=/tmp/wt-reseed
for d in /verif/seeded/*/; do
  name=$(basename $d)
  if [ $# -gt 0 ]; then
    hit=0; for pre in "$@"; do case $name in $pre*) hit=1;; esac; done
    [ $hit = 1 ] || continue
  fi
  prop=$(/venv/bin/python -c "import json;m=json.load(open('$d/meta.json'));print(m.get('check_with', m['breaks_property']))")
  git -C /repo worktree remove --force $WT 2>/dev/null
  git -C /repo worktree add -q --detach $WT HEAD
  if git -C $WT apply $d/patch.diff 2>/dev/null; then ap=yes; else ap=NO; fi
  VERIF_MINIMISE=0 VERIF_REPO=$WT /venv/bin/python -B -m vmon.run $prop --tier quick > /tmp/reseed.log 2>&1; rc=$?
  keys=$(grep "  key=" /tmp/reseed.log | head -3 | sed 's/ witnesses.*//; s/  key=//' | tr '\n' ' ')
  echo "| $name | $prop | $ap | $rc | $keys |" > $ROWS/$name.row
  echo "$name $prop applies=$ap exit=$rc"
  git -C /repo worktree remove --force $WT
done
OUT=/verif/seeded/STATUS.md
echo "| seeded change | check run | patch applies | quick check exit | violation keys (first 3) |" > $OUT
echo "|---|---|---|---|---|" >> $OUT
cat $ROWS/*.row >> $OUT
echo "rows: $(ls $ROWS | wc -l)"
