#!/bin/bash
# Re-validate every kept seeded change against the current checks: each must make the quick check of its property
# exit 1.  Uses a scratch worktree under /tmp (never patches /repo); writes seeded/STATUS.md
OUT=/verif/seeded/STATUS.md
echo "| seeded change | property | patch applies | quick check exit | violation keys (first 3) |" > $OUT.tmp
echo "|---|---|---|---|---|" >> $OUT.tmp
for d in /verif/seeded/*/; do
  name=$(basename $d)
  prop=$(/venv/bin/python -c "import json;m=json.load(open('$d/meta.json'));print(m.get('check_with', m['breaks_property']))")
  WT=/tmp/wt-reseed
  git -C /repo worktree remove --force $WT 2>/dev/null
  git -C /repo worktree add -q --detach $WT HEAD
  if git -C $WT apply $d/patch.diff 2>/dev/null; then ap=yes; else ap=NO; fi
  VERIF_MINIMISE=0 VERIF_REPO=$WT /venv/bin/python -B -m vmon.run $prop --tier quick > /tmp/reseed.log 2>&1; rc=$?
  keys=$(grep "  key=" /tmp/reseed.log | head -3 | sed 's/ witnesses.*//; s/  key=//' | tr '\n' ' ')
  echo "| $name | $prop | $ap | $rc | $keys |" >> $OUT.tmp
  echo "$name $prop applies=$ap exit=$rc"
  git -C /repo worktree remove --force $WT
done
mv $OUT.tmp $OUT
