#!/bin/bash
# usage: tools/evalseed.sh <ID> <PROP> [more props]   -- ID names /tmp/wt/<ID> and /tmp/seedout/<ID>
ID=$1; shift
WT=/tmp/wt/$ID; OUT=${SEEDOUT:-/tmp/seedout}/$ID
echo "== patch applies to /repo HEAD?"; git -C /repo apply --check $OUT/patch.diff && echo yes
echo "== demo on /repo (unmodified): "; (cd /tmp && PYTHONPATH=/repo/src timeout 600 /venv/bin/python -B -W ignore $OUT/demo.py >/tmp/demo_$ID.orig 2>&1; echo "exit=$?"; tail -2 /tmp/demo_$ID.orig)
echo "== demo on worktree (modified): "; (cd /tmp && PYTHONPATH=$WT/src timeout 600 /venv/bin/python -B -W ignore $OUT/demo.py >/tmp/demo_$ID.mod 2>&1; echo "exit=$?"; tail -3 /tmp/demo_$ID.mod)
echo "== test suite on worktree: "; (cd $WT && PYTHONPATH=$WT/src /venv/bin/python -m pytest -q -p no:cacheprovider --timeout=900 2>&1 | tail -1)
echo "== checks: "
for P in "$@"; do
  VERIF_REPO=$WT /venv/bin/python -B -m vmon.run $P --tier quick > /tmp/check_$ID_$P.log 2>&1; rc=$?
  grep -E "VIOLATION|INCONCLUSIVE|  key=" /tmp/check_$ID_$P.log | cut -c1-230 | head -6; tail -1 /tmp/check_$ID_$P.log | cut -c1-200; echo "$P exit=$rc"
done
