#!/usr/bin/env python3
"""Regenerate MANIFEST.json from the table below (claimed checks = modules present in vmon/checks)."""
import json
import os

HERE = os.path.dirname(os.path.dirname(os.path.abspath(__file__)))

TECH = {
    "C01": ("runtime oracle monitor: every curve(u) observed on generated curves is compared with an independent exact Cox-de Boor evaluation", "6 C01"),
    "C02": ("runtime oracle monitor: every Function[i,j](u) row observed is compared with the exact Cox-de Boor table and with Python indexing of it", "6 C02"),
    "C03": ("history monitor: random operation histories on KnotVector checked step by step against an executable list model (offline over the event log) + atomicity snapshots", "6 C03"),
    "C04": ("pre/post state monitor on knot_insert + exact function-equality oracle (complete per-span sampling)", "6 C04"),
    "C05": ("pre/post state monitor on knot_remove in three regimes (exactly removable / tolerance / None) + exact L2 deviation oracle + atomicity snapshots", "6 C05"),
    "C06": ("pre/post state monitor on degree_increase / degree_decrease + exact function-equality oracle + inverse round trip", "6 C06"),
    "C07": ("runtime oracle monitor on split and | : exact restriction equality and minimal junction multiplicity", "6 C07"),
    "C08": ("runtime oracle monitor on every arithmetic operator: polynomial identity decided at enough exact points per span", "6 C08"),
    "C09": ("runtime oracle monitor on Derivate: differentiated Cox-de Boor recursion + quotient rule at p+1 points per span", "6 C09"),
    "C10": ("rule monitors (exact moment conditions) + offline order-independence checker over call logs with cold-process reference values + closed-form spline integrals", "6 C10"),
    "C11": ("runtime oracle monitor on fit_curve: exact L2 orthogonality of the residual, interpolation constraints, error value", "6 C11"),
    "C12": ("runtime oracle monitor on fit_points / fit_function: exact normal equations, interpolation, reproduction", "6 C12"),
    "C13": ("runtime oracle monitor on == / != quadruples against exact function equality of constructed relations", "6 C13"),
    "C14": ("history monitor: refinement histories then clean calls, compared with the exactly computed unique minimal form", "6 C14"),
    "C15": ("invariant-at-hook state monitor (M1) over hostile random programs on the Curve API: consistency, atomic failures, untouched operands", "6 C15"),
    "C16": ("differential monitor across number representations + type sanitizer (no float in exact results)", "6 C16"),
    "C17": ("runtime oracle monitor on | and & of knot vectors: continuity-class formula + representability / minimality by exact rank", "6 C17"),
    "C18": ("runtime oracle monitor on generators and affine maps with value injection at the RNG boundary", "6 C18"),
    "C19": ("runtime oracle monitor on Projection.point_on_curve: closed-form polyline distance, stationarity, logical step budget for termination", "6 C19"),
    "C20": ("runtime oracle monitor on Intersection.curve_and_curve: closed-form segment crossings, soundness and duplicate checks", "6 C20"),
}

LEVEL_TEXT = ("runtime monitoring: the property held on every execution explored (count, classes and what the monitors observed "
              "are in the evidence file); no guarantee outside the generated input classes and bounds")
NOTE = ("trusted base: vmon/ref.py exact-rational reference model (self-tested by vmon.selftest), CPython fractions, the "
        "class-attribute monitor wrappers; float verdicts only on the well-conditioned class. Always-on monitors under "
        "every check: M1 state (atomicity, operands, invariants), M2 logical step budget, M3 reach counters, M4 numpy FP "
        "events, M6 fresh-interpreter history independence, M7 alias probe + bystander curves + scribbled inputs")


def main():
    props = [json.loads(l) for l in open(os.path.join(HERE, "properties.jsonl"))]
    na_path = os.path.join(HERE, "tools", "not_applicable.json")
    na_reasons = json.load(open(na_path)) if os.path.exists(na_path) else {}
    checks, na = [], []
    for p in props:
        pid = p["id"]
        modfile = os.path.join(HERE, "vmon", "checks", pid.lower() + ".py")
        if os.path.exists(modfile) and pid not in na_reasons:
            tech, ref = TECH[pid]
            base = f"/venv/bin/python -B -m vmon.run {pid}"
            checks.append({
                "property_id": pid,
                "quick_cmd": base + " --tier quick",
                "thorough_cmd": base + " --tier thorough",
                "evidence_file": f"/verif/evidence/{pid}.json",
                "replay_cmd_template": "/venv/bin/python -B -m vmon.run --replay {path}",
                "engine": "vmon",
                "level_claimed": {"category": "exploration", "text": LEVEL_TEXT, "design_ref": "DESIGN.md section " + ref},
                "level_note": NOTE,
                "technique": tech,
            })
        else:
            na.append({"property_id": pid, "reason": na_reasons.get(pid, "check not built yet (work in progress)")})
    m = {
        "version": 1,
        "setup_cmd": "/venv/bin/python -B -m vmon.selftest",
        "hooks": {
            "guard": "COMPMEC_NURBS_VERIF",
            "enable": "no source hooks are needed: monitors attach at run time by replacing attributes on the class objects; checks run with PYTHONPATH=$VERIF_REPO/src (default /repo/src), so they always execute the current working tree",
            "baseline_off_cmd": "cd /repo && /venv/bin/python -m pytest -ra -q -p no:cacheprovider --timeout=900 --continue-on-collection-errors",
            "source_commits": [],
            "add_only": True,
        },
        "engines": [{"name": "vmon", "path": "/verif/vmon", "serves_properties": [c["property_id"] for c in checks],
                     "kind_free_text": "runtime monitoring: class-attribute wrappers (state monitor), sys.monitoring step budget and reach counters, exact-rational reference oracle, seeded workload generators, sharded subprocess workers"}],
        "checks": checks,
        "not_applicable": na,
        "notes": "VERIF_SEED / VERIF_TIER / VERIF_REPO / VERIF_JOBS / VERIF_SCALE are honoured; exit 2 + INCONCLUSIVE line when the deciding monitors observed too little",
    }
    json.dump(m, open(os.path.join(HERE, "MANIFEST.json"), "w"), indent=1)
    print(f"{len(checks)} checks claimed, {len(na)} not applicable / pending")


if __name__ == "__main__":
    main()
